#!/usr/bin/env python3
"""Regenerate /verif/MANIFEST.json from props/*.json (claimed) and props/not_applicable.json."""
import json, os, glob
V = os.path.dirname(os.path.dirname(os.path.abspath(__file__)))
checks = []
claimed = set()
for p in sorted(glob.glob(os.path.join(V, "props", "C*.json"))):
    pid = os.path.basename(p)[:-5]
    d = json.load(open(p))
    if not d.get("registered", True):
        continue
    claimed.add(pid)
    units = [json.load(open(os.path.join(V, "units", n + ".json"))) for n in d["units"]]
    n_dfcc = len([u for u in units if not u.get("nodfcc")])
    n_plain = len([u for u in units if u.get("nodfcc")])
    n_bounded = len([u for u in units if u.get("tier", "proof") != "proof"])
    tech = "contract-based deductive verification of the real C sources with CBMC 6.11: %d unit(s) with function / loop contracts bound by goto-instrument --dfcc (--enforce-contract, --replace-call-with-contract, --apply-loop-contracts)" % n_dfcc
    if n_plain:
        tech += "; %d unit(s) as harness-level precondition/postcondition checks of the real function on plain cbmc (no --dfcc frame check; callees replaced by stubs or generated bodies)" % n_plain
    if n_bounded:
        tech += "; %d of the units are BOUNDED (constant capacities / list lengths / pinned layouts, loops unwound with unwinding assertions) and are reported separately from the proof-tier obligations" % n_bounded
    tech += "; SAT back end kissat (external) or MiniSat; violations are replayed natively (gcc + ASan/UBSan) where the unit's inputs are plain data"
    checks.append({
        "property_id": pid,
        "quick_cmd": "bin/vcheck %s --tier quick" % pid,
        "thorough_cmd": "bin/vcheck %s --tier thorough" % pid,
        "evidence_file": "/verif/evidence/%s.json" % pid,
        "replay_cmd_template": "bin/vcheck %s --replay {path}" % pid,
        "engine": "vengine",
        "level_claimed": {"category": d.get("level", "proof"), "text": d["level_text"], "design_ref": d.get("design_ref", "DESIGN.md section 5 " + pid)},
        "level_note": d["level_note"],
        "technique": d.get("technique", tech),
    })
na = json.load(open(os.path.join(V, "props", "not_applicable.json")))
na = [x for x in na if x["property_id"] not in claimed]
m = {
    "version": 1,
    "setup_cmd": "true",
    "hooks": {"guard": "LIBCOAP_VERIF",
              "enable": "no source hooks: contracts, loop contracts and stubs live in /verif and are bound to the unmodified sources at instrumentation time (goto-instrument --enforce-contract f/f_contract); harness translation units define LIBCOAP_VERIF",
              "baseline_off_cmd": "cmake -S /repo -B /repo/_build -G Ninja && cmake --build /repo/_build && /repo/_build/testdriver",
              "source_commits": [], "add_only": True},
    "engines": [{"name": "vengine", "path": "engine/vengine.py", "serves_properties": sorted(claimed),
                 "kind_free_text": "driver for CBMC code-contract verification units (function contracts + loop contracts on the real sources), witness search and native replay"}],
    "checks": checks,
    "not_applicable": na,
    "notes": "See DESIGN.md. Exit 0 = all obligations discharged (known findings printed as KNOWN-FINDING), 1 = VIOLATION, 2 = UNDECIDED (tool error/timeout; never a violation).",
}
json.dump(m, open(os.path.join(V, "MANIFEST.json"), "w"), indent=1)
print("claimed:", sorted(claimed), "not_applicable:", [x["property_id"] for x in na])
