#!/usr/bin/env python3
"""vengine -- contract-based verification driver for libcoap (CBMC 6.11 code contracts).

One *unit* = one function of /repo under contract (units/<unit>.c + units/<unit>.json).
One *property* = a set of units (props/<Cxx>.json).  See DESIGN.md section 3.

Exit codes of a property check: 0 all obligations discharged (or only known findings),
1 violation(s), 2 undecided (tool error, timeout, vacuous unit, ...).
"""
import hashlib
import json
import os
import re
import shutil
import subprocess
import sys
import tempfile
import time
from concurrent.futures import ThreadPoolExecutor

VERIF = os.path.dirname(os.path.dirname(os.path.abspath(__file__)))
REPO = os.environ.get("VERIF_REPO", "/repo")
SCRATCH_BASE = os.environ.get("VERIF_SCRATCH", "/var/tmp")
JOBS = int(os.environ.get("VERIF_JOBS", "12"))
GUARD = "LIBCOAP_VERIF"

CHECK_FLAGS = ["--bounds-check", "--pointer-check", "--pointer-overflow-check",
               "--signed-overflow-check", "--undefined-shift-check", "--div-by-zero-check",
               "--pointer-primitive-check"]


class ToolError(Exception):
    pass


import threading
CBMC_SEM = threading.BoundedSemaphore(JOBS)


def sh(cmd, timeout=None, cwd=None, mem_gb=None, env=None):
    """run a command, return (rc, stdout, stderr, wall)"""
    t0 = time.time()
    pre = None
    if mem_gb:
        import resource

        def pre():
            lim = int(mem_gb * (1 << 30))
            resource.setrlimit(resource.RLIMIT_AS, (lim, lim))
    try:
        p = subprocess.run(cmd, stdout=subprocess.PIPE, stderr=subprocess.PIPE, timeout=timeout,
                           cwd=cwd, preexec_fn=pre, env=env)
        return p.returncode, p.stdout.decode("utf-8", "replace"), p.stderr.decode("utf-8", "replace"), time.time() - t0
    except subprocess.TimeoutExpired as e:
        out = (e.stdout or b"").decode("utf-8", "replace")
        err = (e.stderr or b"").decode("utf-8", "replace")
        return -9, out, err + "\nTIMEOUT after %ss" % timeout, time.time() - t0


# ------------------------------------------------------------------ configuration headers
def cfg_inputs_hash():
    h = hashlib.sha256()
    h.update(b"v1")
    files = ["CMakeLists.txt", "cmake_coap_config.h.in", "cmake_coap_defines.h.in", "configure.ac"]
    cm = os.path.join(REPO, "cmake")
    if os.path.isdir(cm):
        for f in sorted(os.listdir(cm)):
            files.append(os.path.join("cmake", f))
    for f in files:
        p = os.path.join(REPO, f)
        if os.path.isfile(p):
            h.update(f.encode())
            h.update(open(p, "rb").read())
    return h.hexdigest()[:20]


def get_cfg(scratch):
    """Regenerate coap_config.h / coap_defines.h from the current tree with the real CMake run.
    Cached by a hash of the cmake inputs (the cache is a pure function of /repo's files)."""
    hh = cfg_inputs_hash()
    cache = os.path.join(SCRATCH_BASE, "verif-cfg-" + hh)
    ok = os.path.join(cache, ".ok")
    if not os.path.exists(ok):
        tmp = tempfile.mkdtemp(prefix="verif-cfgbuild-", dir=SCRATCH_BASE)
        rc, out, err, _ = sh(["cmake", "-S", REPO, "-B", tmp, "-G", "Ninja",
                              "-DCMAKE_BUILD_TYPE=RelWithDebInfo"], timeout=300)
        if rc != 0 or not os.path.exists(os.path.join(tmp, "coap_config.h")):
            shutil.rmtree(tmp, ignore_errors=True)
            raise ToolError("cmake configure of %s failed: %s" % (REPO, (out + err)[-2000:]))
        keep = tempfile.mkdtemp(prefix="verif-cfgkeep-", dir=SCRATCH_BASE)
        shutil.copy(os.path.join(tmp, "coap_config.h"), keep)
        shutil.copytree(os.path.join(tmp, "include"), os.path.join(keep, "include"))
        shutil.rmtree(tmp, ignore_errors=True)
        open(os.path.join(keep, ".ok"), "w").write(hh)
        try:
            os.rename(keep, cache)
        except OSError:
            shutil.rmtree(keep, ignore_errors=True)  # somebody else won the race
    return cache


def cflags(cfg, extra):
    return ["-DNDEBUG", "-D" + GUARD, '-DLIBCOAP_PACKAGE_BUILD="verif"',
            "-I" + cfg, "-I" + os.path.join(cfg, "include"), "-I" + os.path.join(REPO, "include"),
            "-I" + REPO, "-I" + VERIF] + list(extra)


# ------------------------------------------------------------------ unit description
def load_unit(name):
    p = os.path.join(VERIF, "units", name + ".json")
    u = json.load(open(p))
    u.setdefault("unit", name)
    u.setdefault("source", name + ".c")
    u.setdefault("tier", "proof")
    u.setdefault("enforce", [])
    u.setdefault("replace", [])
    u.setdefault("loops", [])
    u.setdefault("unwindset", [])
    u.setdefault("mustfail", ["vacuity.end_reachable"])
    u.setdefault("timeout", 300)
    u.setdefault("mem_gb", 12)
    u.setdefault("defs", [])
    u.setdefault("tier_defs", {})
    u.setdefault("functions", [])
    u.setdefault("native", False)
    u.setdefault("witness_defs", [])
    u.setdefault("solver", "kissat")
    u.setdefault("flags", [])
    u.setdefault("tiers", ["quick", "thorough"])
    u.setdefault("trusted", [])
    u.setdefault("bounds", "")
    u.setdefault("min_obligations", 1)
    u.setdefault("known_defs", {})
    return u


def load_prop(pid):
    return json.load(open(os.path.join(VERIF, "props", pid + ".json")))


# ------------------------------------------------------------------ loop anchors
def source_lines_matching(path, regex):
    rx = re.compile(regex)
    res = []
    with open(path, errors="replace") as f:
        for i, l in enumerate(f, 1):
            if rx.search(l):
                res.append(i)
    return res


def parse_show_loops(txt):
    """goto-instrument/cbmc --show-loops text -> list of (loop_name, file, line, function)"""
    loops = []
    cur = None
    for l in txt.splitlines():
        m = re.match(r"Loop (\S+):", l)
        if m:
            cur = m.group(1)
            continue
        m = re.match(r"\s+file (\S+) line (\d+)(?: column \d+)? function (\S+)", l)
        if m and cur:
            loops.append((cur, m.group(1), int(m.group(2)), m.group(3)))
            cur = None
    return loops


def resolve_anchor(loops, spec, what):
    """spec: {"function":..., "file": "src/coap_pdu.c" (relative to repo, or absolute/verif-relative), "anchor": regex, "nth": optional}"""
    f = spec["file"]
    cands = [os.path.join(REPO, f), os.path.join(VERIF, f), f]
    path = next((c for c in cands if os.path.isfile(c)), None)
    if not path:
        raise ToolError("%s: file %s not found" % (what, f))
    lines = source_lines_matching(path, spec["anchor"])
    if not lines:
        raise ToolError("%s: anchor /%s/ not found in %s" % (what, spec["anchor"], f))
    fn = spec.get("function")
    hits = []
    for (name, lf, ln, lfn) in loops:
        if os.path.basename(lf) != os.path.basename(path):
            continue
        base_fn = lfn.replace("_wrapped_for_contract_checking", "")
        if fn and base_fn != fn:
            continue
        if ln in lines:
            hits.append((name, ln))
    hits = sorted(set(hits), key=lambda x: (x[1], x[0]))
    if spec.get("all"):
        if not hits:
            raise ToolError("%s: anchor /%s/ matches no loop" % (what, spec["anchor"]))
        return [h[0] for h in hits]
    if "nth" in spec:
        if spec["nth"] < len(hits):
            return hits[spec["nth"]][0]
        raise ToolError("%s: anchor /%s/ has only %d loops" % (what, spec["anchor"], len(hits)))
    if len(hits) != 1:
        raise ToolError("%s: anchor /%s/ in %s resolves to %d loops %s (source lines %s)" %
                        (what, spec["anchor"], f, len(hits), hits, lines))
    return hits[0][0]


def symbol_map(symtab_txt, fn, names, overrides):
    syms = re.findall(r"^Symbol\.+: (\S+)$", symtab_txt, re.M)
    out = []
    for n in names:
        if n in overrides:
            out.append("%s,%s" % (n, overrides[n]))
            continue
        c = [s for s in syms if s.startswith(fn + "::") and s.endswith("::" + n)]
        if len(c) != 1:
            raise ToolError("loop contract symbol %s in %s: %d candidates %s" % (n, fn, len(c), c))
        out.append("%s,%s" % (n, c[0]))
    return ";".join(out)


# ------------------------------------------------------------------ obligation classification
def classify(r):
    pid = r.get("property", "")
    desc = r.get("description", "")
    loc = r.get("sourceLocation", {}) or {}
    fn = loc.get("function", "") or ""
    if desc.startswith("vacuity."):
        return "mustfail"
    if (loc.get("file") or "") == "<predicate>" and re.search(r"\.(pointer_arithmetic|pointer_dereference|pointer|overflow|pointer_primitives|array_bounds)\.", pid):
        # safety checks cbmc generates *inside the text of an external loop invariant* (file "<predicate>"); they are
        # evaluated on the havocked state before the invariant is assumed, i.e. on arbitrary pointers: artefact of the
        # specification expression, not an obligation on the code (DESIGN 2.11).  Not counted, never a verdict.
        return "specexpr"
    if "unwinding assertion" in desc or ".unwind." in pid or "recursion unwinding" in desc:
        return "structure"
    if "undefined function should be unreachable" in desc or "no body for" in desc:
        return "structure"
    if pid.endswith("no-body") or ".no-body." in pid:
        return "structure"
    if fn.startswith("__CPROVER_contracts_") or pid.startswith("__CPROVER_contracts_"):
        return "structure"
    if re.search(r"\.(postcondition|precondition|assigns|frees|loop_invariant_base|loop_invariant_step|loop_decreases|loop_assigns|loop_step_unwinding|loop_invariant)\.?", pid) or \
            re.search(r"(postcondition|precondition_instance|assigns|loop_invariant|loop_decreases|step case|base case|is assignable|is freeable)", desc + " " + loc.get("propertyClass", "")):
        return "contract"
    pc = loc.get("propertyClass", "")
    if pc in ("pointer_dereference", "array_bounds", "bounds", "overflow", "undefined-shift", "division-by-zero",
              "pointer_arithmetic", "pointer_primitives", "memory-leak", "pointer", "NaN", "enum-range", "bit_count"):
        return "safety"
    if pc == "assertion" or ".assertion." in pid:
        return "spec"  # harness/stub assertion: spec predicate or stub precondition
    return "safety"


# ------------------------------------------------------------------ one CBMC pipeline run
class UnitRun:
    def __init__(self, unit, tier):
        self.unit = unit
        self.tier = tier
        self.status = "undecided"   # ok | failed | undecided
        self.reason = ""
        self.results = []           # list of dict(id, cls, desc, status, file, line, function)
        self.wall = 0.0
        self.solver_s = 0.0
        self.cmds = []
        self.log = ""
        self.binary = None
        self.backend = ""

    def failed(self, classes=("contract", "safety", "spec")):
        return [r for r in self.results if r["status"] == "FAILURE" and r["cls"] in classes]


def resolve_unwindset(u, loops, tier, defs):
    allnames = [l[0] for l in loops]
    items = []
    for W in u["unwindset"]:
        n = W["n"]
        if isinstance(n, dict):
            n = n.get(tier, n.get("quick"))
        if isinstance(n, str):  # expression over defs, e.g. "CAP+1"
            env = {}
            for d in defs:
                m = re.match(r"-D(\w+)=(\d+)$", d)
                if m:
                    env[m.group(1)] = int(m.group(2))
            n = eval(n, {}, env)
        if "recursion" in W:  # recursive function: cbmc takes the function name as the loop id of its recursion unwinding
            items.append("%s:%d" % (W["recursion"], n))
            continue
        if "loop" in W:       # literal loop name (library/stub functions), may be a pattern
            names = [x for x in allnames if re.fullmatch(W["loop"], x)]
            if not names:
                if W.get("optional"):
                    continue
                raise ToolError("unwindset loop %s not in instrumented binary of %s" % (W["loop"], u["unit"]))
        else:
            try:
                names = resolve_anchor(loops, W, "unwindset of " + u["unit"])
            except ToolError:
                if W.get("optional"):
                    continue
                raise
            if not isinstance(names, list):
                names = [names]
        for nm in names:
            items.append("%s:%d" % (nm, n))
    if items:
        return ["--unwindset", ",".join(items), "--unwinding-assertions"]
    return []


def regen_bodies(u, gb, workdir, tag, kind, functions, option, cmds):
    cur = gb
    for k, f in enumerate(functions):
        nxt = os.path.join(workdir, "%s.%s.%s%d.gb" % (u["unit"], tag, kind, k))
        gi = ["goto-instrument", "--remove-function-body", f, "--generate-function-body", f,
              "--generate-function-body-options", option, cur, nxt]
        cmds.append(" ".join(gi))
        rc, out, err, _ = sh(gi, timeout=300)
        if rc != 0 or "Removing body of " + f not in (out + err):
            raise ToolError("goto-instrument could not replace the body of %s in %s: %s" % (f, u["unit"], (out + err)[-1500:]))
        cur = nxt
    return cur


def build_unit(u, tier, workdir, cfg, extra_defs=(), tag="p"):
    """goto-cc + goto-instrument; returns (instrumented binary path, unwindset args, cmds)"""
    src = os.path.join(VERIF, "units", u["source"])
    defs = list(u["defs"]) + list(u["tier_defs"].get(tier, [])) + list(extra_defs)
    gb = os.path.join(workdir, "%s.%s.gb" % (u["unit"], tag))
    igb = os.path.join(workdir, "%s.%s.i.gb" % (u["unit"], tag))
    cmds = []
    flags = cflags(cfg, defs)
    if u.get("undebug"):
        flags = [f for f in flags if f != "-DNDEBUG"]
    cmd = ["goto-cc"] + flags + ["--function", "harness", src, "-o", gb]
    cmds.append(" ".join(cmd))
    rc, out, err, _ = sh(cmd, timeout=300)
    if rc != 0:
        raise ToolError("goto-cc failed for %s: %s" % (u["unit"], (out + err)[-3000:]))
    if u.get("nodfcc"):
        # harness-level pre/postcondition unit without any function or loop contract to bind: plain cbmc on the
        # compiled harness (static initialisers of library tables are then applied by __CPROVER_initialize)
        if u["enforce"] or u["replace"] or u["loops"]:
            raise ToolError("unit %s: nodfcc is incompatible with contracts" % u["unit"])
        igb = gb
        if u.get("havoc_functions"):
            # callees that have their own unit and no effect this unit looks at: body replaced by "return an arbitrary value"
            # (one goto-instrument call per function: a long alternation regex makes --generate-function-body take minutes)
            gb = regen_bodies(u, gb, workdir, tag, "h", u["havoc_functions"], "nondet-return", cmds)
            igb = gb
        if u.get("cut_functions"):
            # functions the unit's precondition makes unreachable but whose bodies symex would still explore (e.g. the mutually
            # recursive append path of the option editors): body replaced by assert(false); assume(false) - reaching one fails
            # an obligation ("<fn> is not reached in this unit")
            igb = regen_bodies(u, igb, workdir, tag, "c", u["cut_functions"], "assert-false-assume-false", cmds)
        uw = []
        if u["unwindset"]:
            rc, lo, le, _ = sh(["cbmc", igb, "--show-loops"], timeout=120)
            uw = resolve_unwindset(u, parse_show_loops(lo), tier, defs)
        return igb, uw, cmds
    gi = ["goto-instrument", "--dfcc", "harness"]
    for e in u["enforce"]:
        gi += ["--enforce-contract", e]
    for r in u["replace"]:
        gi += ["--replace-call-with-contract", r["bind"] if isinstance(r, dict) else r]
    if u["loops"]:
        rc, lo, le, _ = sh(["goto-instrument", "--show-loops", gb], timeout=120)
        loops = parse_show_loops(lo)
        rc, st, se, _ = sh(["goto-instrument", "--show-symbol-table", gb], timeout=120)
        byfn = {}
        for L in u["loops"]:
            name = resolve_anchor(loops, L, "loop contract of " + u["unit"])
            fn, lid = name.rsplit(".", 1)
            ent = {"loop_id": lid}
            for k in ("assigns", "invariants", "decreases"):
                if L.get(k):
                    ent[k] = L[k]
            ent["symbol_map"] = symbol_map(st, fn, L.get("symbols", []), L.get("symbol_overrides", {}))
            byfn.setdefault(fn, []).append(ent)
        lj = {"sources": [os.path.basename(src)], "functions": [{k: v} for k, v in byfn.items()], "output": "OUTPUT"}
        ljp = os.path.join(workdir, "%s.%s.loops.json" % (u["unit"], tag))
        json.dump(lj, open(ljp, "w"), indent=1)
        gi += ["--apply-loop-contracts", "--loop-contracts-file", ljp]
    elif u.get("apply_loop_contracts"):
        gi += ["--apply-loop-contracts"]
    gi += [gb, igb]
    cmds.append(" ".join(gi))
    rc, out, err, _ = sh(gi, timeout=600)
    if rc != 0:
        raise ToolError("goto-instrument failed for %s: %s" % (u["unit"], (out + err)[-3000:]))
    uw = []
    if u["unwindset"]:
        rc, lo, le, _ = sh(["cbmc", igb, "--show-loops"], timeout=120)
        uw = resolve_unwindset(u, parse_show_loops(lo), tier, defs)
    return igb, uw, cmds


def run_cbmc(u, igb, uw, extra=(), timeout=None, want_trace=False):
    cmd = ["cbmc", igb, "--json-ui", "--drop-unused-functions"] + CHECK_FLAGS + list(u["flags"]) + uw + list(extra)
    if u["solver"] == "kissat":
        cmd += ["--external-sat-solver", "kissat"]
    if want_trace:
        cmd += ["--trace"]
    with CBMC_SEM:
        rc, out, err, wall = sh(cmd, timeout=timeout or u["timeout"], mem_gb=u["mem_gb"])
    return cmd, rc, out, err, wall


def list_properties(u, igb, uw):
    cmd = ["cbmc", igb, "--json-ui", "--drop-unused-functions", "--show-properties"] + CHECK_FLAGS + list(u["flags"]) + uw
    rc, out, err, wall = sh(cmd, timeout=300)
    try:
        for el in json.loads(out):
            if "properties" in el:
                return [p["name"] for p in el["properties"]]
    except Exception:
        pass
    raise ToolError("cannot list properties of %s: %s" % (u["unit"], (err or out)[-500:]))


def run_cbmc_chunked(u, igb, uw, nchunks):
    """Split the obligations of one instrumented binary into nchunks groups (round-robin over the property
    list) and decide each group by its own cbmc process (cone-of-influence slicing makes the groups much
    cheaper than one all-properties query).  Returns (cmd_text, rc, merged_json_text, err, wall)."""
    props = list_properties(u, igb, uw)
    chunks = [props[k::nchunks] for k in range(nchunks)]
    chunks = [c for c in chunks if c]
    t0 = time.time()

    def one(c):
        extra = []
        for pn in c:
            extra += ["--property", pn]
        return run_cbmc(u, igb, uw, extra=extra)
    with ThreadPoolExecutor(max_workers=len(chunks)) as ex:
        outs = list(ex.map(one, chunks))
    merged = []
    rc_all = 0
    errs = ""
    for (cmd, rc, out, err, wall) in outs:
        if rc == -9:
            return cmd, -9, "", err, time.time() - t0
        try:
            data = json.loads(out)
        except Exception:
            return cmd, rc, out, err, time.time() - t0
        res = None
        for el in data:
            if "result" in el:
                res = el["result"]
            elif "messageText" in el:
                merged.append(el)
        if res is None:
            return cmd, rc, out, err, time.time() - t0
        merged.append({"result_part": res})
        errs += err
    allres = []
    for el in merged:
        if "result_part" in el:
            allres += el["result_part"]
    final = [el for el in merged if "result_part" not in el] + [{"result": allres}]
    cmdtxt = outs[0][0][:]
    # describe the command without the long property list
    short = []
    skip = False
    for tok in cmdtxt:
        if skip:
            skip = False
            continue
        if tok == "--property":
            skip = True
            continue
        short.append(tok)
    short += ["<obligations split round-robin into %d cbmc processes via --property>" % len(chunks)]
    return short, 0, json.dumps(final), errs, time.time() - t0


def parse_cbmc_json(out):
    try:
        data = json.loads(out)
    except Exception:
        # truncated output (timeout/oom): try to salvage nothing
        return None, [], 0.0, []
    results = None
    msgs = []
    solver = 0.0
    errors = []
    for el in data:
        if "result" in el:
            results = el["result"]
        if "messageText" in el:
            t = el["messageText"]
            msgs.append(t)
            m = re.search(r"Runtime decision procedure: ([0-9.]+)s", t)
            if m:
                solver += float(m.group(1))
            if el.get("messageType") == "ERROR":
                errors.append(t)
            if "does not match any loop" in t or "ignoring forall" in t or "ignoring exists" in t:
                errors.append(t)
    return results, msgs, solver, errors


def run_unit(name, tier, workdir, cfg, extra_defs=(), tag="p"):
    """run one unit; a unit with "variants" (a list of -D lists, e.g. enumerated concrete layouts of the bounded
    tier) is run once per variant in parallel and the obligations are merged (ids suffixed @<variant>)."""
    u0 = load_unit(name)
    variants = u0.get("variants")
    gen_skipped = []
    if u0.get("generator"):
        gdir = os.path.join(workdir, "gen_" + name)
        rc, out, err, _ = sh(["python3", os.path.join(VERIF, u0["generator"]), gdir, REPO], timeout=300)
        try:
            gj = json.loads(out)
        except Exception:
            ur = UnitRun(u0, tier)
            ur.reason = "generator %s failed: %s" % (u0["generator"], (err or out)[-500:])
            return ur
        variants = gj["variants"]
        gen_skipped = gj.get("skipped", [])
        if len(variants) < u0.get("min_variants", 1):
            ur = UnitRun(u0, tier)
            ur.reason = "generator produced only %d variants (expected >= %d)" % (len(variants), u0.get("min_variants", 1))
            return ur
    if isinstance(variants, dict):
        variants = variants.get(tier, variants.get("quick"))
    if not variants:
        return run_unit1(name, tier, workdir, cfg, extra_defs, tag)
    t0 = time.time()
    norm = []
    for v in variants:
        if isinstance(v, dict):
            norm.append({"defs": list(v.get("defs", [])), "override": {k: v[k] for k in ("replace", "enforce", "functions") if k in v}, "label": v.get("label", "")})
        else:
            norm.append({"defs": list(v), "override": {}, "label": " ".join(v)})
    with ThreadPoolExecutor(max_workers=max(1, min(len(norm), 64))) as ex:
        subs = list(ex.map(lambda kv: run_unit1(name, tier, workdir, cfg, list(extra_defs) + kv[1]["defs"], "%s%d" % (tag, kv[0]), kv[1]["override"]), enumerate(norm)))
    ur = UnitRun(u0, tier)
    ur.cmds = subs[0].cmds + ["(... the same pipeline for %d variants: %s)" % (len(norm), "; ".join(v["label"] for v in norm[:100]))]
    ur.backend = subs[0].backend
    ur.generated = {"variants": [v["label"] for v in norm], "skipped": gen_skipped}
    fns = []
    for k, su in enumerate(subs):
        vt = norm[k]["label"] or ("v%d" % k)
        for fn in norm[k]["override"].get("functions", []):
            fns.append(fn)
        for r in su.results:
            r2 = dict(r)
            r2["id"] = "%s@%s" % (r["id"], vt)
            r2["variant"] = norm[k]["defs"]
            r2["variant_override"] = norm[k]["override"]
            ur.results.append(r2)
        ur.solver_s += su.solver_s
    if fns:
        ur.unit = dict(u0)
        ur.unit["functions"] = list(u0["functions"]) + fns
    und = [(k, su) for k, su in enumerate(subs) if su.status == "undecided"]
    if any(su.status == "failed" for su in subs):
        ur.status = "failed"
    elif und:
        ur.status = "undecided"
        ur.reason = "variant %s: %s" % (norm[und[0][0]]["label"], und[0][1].reason)
    else:
        ur.status = "ok"
    ur.wall = time.time() - t0
    return ur


def run_unit1(name, tier, workdir, cfg, extra_defs=(), tag="p", override=None):
    u = load_unit(name)
    if override:
        u.update(override)
    if isinstance(u["timeout"], dict):      # per-tier time limit
        u["timeout"] = u["timeout"].get(tier, u["timeout"].get("quick", 300))
    ur = UnitRun(u, tier)
    t0 = time.time()
    try:
        igb, uw, cmds = build_unit(u, tier, workdir, cfg, extra_defs, tag)
        ur.cmds = cmds
        ur.binary = igb
        ur.uw = uw
        nchunks = u.get("chunks", 1)
        if isinstance(nchunks, dict):
            nchunks = nchunks.get(tier, 1)
        if nchunks > 1:
            cmd, rc, out, err, wall = run_cbmc_chunked(u, igb, uw, nchunks)
        else:
            cmd, rc, out, err, wall = run_cbmc(u, igb, uw)
        ur.cmds.append(" ".join(cmd))
        ur.backend = "kissat (external)" if u["solver"] == "kissat" else "MiniSat 2.2.1 (cbmc built-in)"
        if rc == -9:
            ur.reason = "timeout after %ss" % u["timeout"]
            ur.wall = time.time() - t0
            return ur
        results, msgs, solver, errors = parse_cbmc_json(out)
        ur.solver_s = solver
        if results is None:
            ur.reason = "cbmc produced no result (rc=%s): %s" % (rc, (err or out)[-1500:])
            ur.wall = time.time() - t0
            return ur
        if errors:
            ur.reason = "cbmc reported: " + "; ".join(errors[:3])
            ur.wall = time.time() - t0
            return ur
        # cbmc leaves obligations that are only reachable past a FAILED one as UNKNOWN (it cuts the path there);
        # decide those in follow-up runs restricted to them (the failed ones are then not asserted)
        for _round in range(3):
            unk = [r.get("property") for r in results if r.get("status") not in ("SUCCESS", "FAILURE")]
            if not unk or len(unk) > 1500:
                break
            extra = []
            for pn in unk:
                extra += ["--property", pn]
            cmd2, rc2, out2, err2, wall2 = run_cbmc(u, igb, uw, extra=extra)
            res2, _, _, errors2 = parse_cbmc_json(out2)
            if rc2 == -9 or res2 is None or errors2:
                break
            upd = {r.get("property"): r for r in res2}
            progressed = False
            for k, r in enumerate(results):
                if r.get("property") in upd and upd[r.get("property")].get("status") in ("SUCCESS", "FAILURE"):
                    results[k] = upd[r.get("property")]
                    progressed = True
            if not progressed:
                break
        for r in results:
            loc = r.get("sourceLocation", {}) or {}
            ur.results.append({"id": r.get("property"), "cls": classify(r), "desc": r.get("description", ""),
                               "status": r.get("status"), "file": loc.get("file", ""), "line": loc.get("line", ""),
                               "function": loc.get("function", "")})
        # structure / vacuity.  A counterexample to a contract/safety/spec obligation is a real execution of the
        # code whatever else failed, so candidate violations take precedence over structural failures.
        sfail = [r for r in ur.results if r["cls"] == "structure" and r["status"] == "FAILURE"]
        if sfail and ur.failed():
            ur.status = "failed"
            ur.reason = "also structural: %s" % sfail[0]["desc"]
            ur.wall = time.time() - t0
            return ur
        if sfail:
            ur.reason = "structural obligation failed: %s (%s)" % (sfail[0]["id"], sfail[0]["desc"])
            ur.wall = time.time() - t0
            return ur
        mf = {r["desc"]: r for r in ur.results if r["cls"] == "mustfail"}
        for m in u["mustfail"]:
            if m not in mf:
                ur.reason = "must-fail obligation %s missing" % m
                ur.wall = time.time() - t0
                return ur
            if mf[m]["status"] != "FAILURE":
                ur.reason = "vacuous: must-fail obligation %s did not fail" % m
                ur.wall = time.time() - t0
                return ur
        nob = len([r for r in ur.results if r["cls"] in ("contract", "safety", "spec")])
        if nob < u["min_obligations"]:
            ur.reason = "only %d obligations generated (expected >= %d): contract silently dropped?" % (nob, u["min_obligations"])
            ur.wall = time.time() - t0
            return ur
        for L in u["loops"]:
            pass
        if u["loops"] and not any("loop_invariant_step" in (r["id"] or "") or "step" in r["desc"] for r in ur.results):
            ur.reason = "loop contract not applied (no loop_invariant_step obligation)"
            ur.wall = time.time() - t0
            return ur
        unknown = [r for r in ur.results if r["cls"] in ("contract", "safety", "spec") and r["status"] not in ("SUCCESS", "FAILURE")]
        if ur.failed():
            ur.status = "failed"
        elif unknown:
            ur.reason = "%d obligations left UNKNOWN by cbmc without any failure (first: %s)" % (len(unknown), unknown[0]["id"])
        else:
            ur.status = "ok"
    except ToolError as e:
        ur.reason = str(e)
    ur.wall = time.time() - t0
    return ur


# ------------------------------------------------------------------ witness + native replay
def value_of(v):
    """CBMC json trace value -> python (int | list of ints for arrays | dict for structs)"""
    if v is None:
        return None
    n = v.get("name")
    if n in ("integer", "boolean", "float"):
        d = v.get("data")
        if n == "boolean":
            return 1 if d in ("true", True, "TRUE") else 0
        try:
            return int(d)
        except Exception:
            try:
                return int(str(d).rstrip("uUlL"))
            except Exception:
                return str(d)
    if n == "pointer":
        return v.get("data")
    if n == "array":
        out = {}
        for e in v.get("elements", []):
            out[int(e["index"])] = value_of(e["value"])
        return [out.get(i, 0) for i in range(max(out.keys()) + 1)] if out else []
    if n == "struct":
        return {m["name"]: value_of(m["value"]) for m in v.get("members", [])}
    if n == "union":
        return value_of(v.get("member", {}).get("value")) if "member" in v else None
    return v.get("data")


def extract_inputs(trace):
    """-> list of records ('S', name, int) / ('B', name, bytes) in trace order.
    Inputs are exactly the results of nondet_<name>() calls (IN_SCALAR / IN_BYTES / stub choices);
    a name that occurs several times is a sequence (k-th call gets the k-th value)."""
    recs = []
    for st in trace:
        if st.get("stepType") != "assignment" or st.get("hidden"):
            continue
        lhs = st.get("lhs", "")
        if not lhs.startswith("return_value_nondet_"):
            continue
        name = lhs[len("return_value_nondet_"):]
        if "." in name or "[" in name:
            continue
        val = value_of(st.get("value"))
        if isinstance(val, dict) and isinstance(val.get("b"), list):
            recs.append(("B", name, bytes((x if isinstance(x, int) else 0) & 0xFF for x in val["b"])))
        elif isinstance(val, int):
            recs.append(("S", name, val))
    return recs


def find_matching_property(results, target):
    """find, in another build's result list, the obligation that corresponds to `target`"""
    exact = [r for r in results if r["id"] == target["id"] and r["desc"] == target["desc"]]
    if exact:
        return exact[0]
    same = [r for r in results if r["desc"] == target["desc"] and r["function"] == target["function"] and r["line"] == target["line"]]
    if same:
        return same[0]
    same = [r for r in results if r["desc"] == target["desc"] and r["function"] == target["function"]]
    return same[0] if same else None


def witness_and_replay(name, tier, workdir, cfg, failed, pid, extra_defs=()):
    """(variants: obligations are grouped by variant and each group is handled with that variant's defines)"""
    byvar = {}
    ovr = {}
    for f in failed:
        byvar.setdefault(tuple(f.get("variant", ())), []).append(f)
        ovr[tuple(f.get("variant", ()))] = f.get("variant_override") or {}
    if len(byvar) > 1 or (byvar and list(byvar.keys())[0]):
        outs = []
        for k, (var, fs) in enumerate(sorted(byvar.items())[:3]):
            fs2 = []
            for f in fs:
                f2 = dict(f)
                f2["id"] = (f["id"] or "").split("@")[0]
                f2["full_id"] = f["id"]
                f2.pop("variant", None)
                f2.pop("variant_override", None)
                fs2.append(f2)
            sub = witness_and_replay1(name, tier, workdir, cfg, fs2, pid, list(extra_defs) + list(var), tagx="w%d" % k, override=ovr.get(var))
            for o in sub:
                o["obligation"]["id"] = o["obligation"].get("full_id", o["obligation"]["id"])
            outs += sub
        return outs
    return witness_and_replay1(name, tier, workdir, cfg, failed, pid, extra_defs)


def witness_and_replay1(name, tier, workdir, cfg, failed, pid, extra_defs=(), tagx="w", override=None):
    """For failed obligations of unit `name`: search a concrete input (witness build), write the replay
    file, run the native replay.  Returns list of dict(path, reproduced, obligation)."""
    u = load_unit(name)
    if override:
        u.update(override)
    if isinstance(u["timeout"], dict):
        u["timeout"] = u["timeout"].get(tier, u["timeout"].get("quick", 300))
    outs = []
    wres = None
    wbin = None
    wuw = []
    try:
        if not u["native"] and not os.environ.get("VERIF_WITNESS_ALL"):
            # units without a native replay (ghost-stubbed callees): the violation is reported with the failed obligation and
            # the verifier output only (no-failing-input-found); the second, witness-mode verification run is skipped - for the
            # slow bounded units it doubled a 5 minute check (set VERIF_WITNESS_ALL=1 to get the concrete inputs in the replay file)
            raise ToolError("witness search skipped")
        wbin, wuw, _ = build_unit(u, tier, workdir, cfg, list(extra_defs) + ["-DVERIF_WITNESS"] + u["witness_defs"], tag=tagx)
        cmd, rc, out, err, wall = run_cbmc(u, wbin, wuw, timeout=u["timeout"])
        res, _, _, _ = parse_cbmc_json(out)
        if res is not None:
            wres = [{"id": r.get("property"), "desc": r.get("description", ""), "status": r.get("status"),
                     "function": (r.get("sourceLocation") or {}).get("function", ""),
                     "line": (r.get("sourceLocation") or {}).get("line", ""), "cls": classify(r)} for r in res]
    except ToolError as e:
        wres = None
    # group: replayable targets = failed obligations that also fail in the witness build
    done = 0
    os.makedirs(os.path.join(VERIF, "replays"), exist_ok=True)
    for f in failed:
        safe = re.sub(r"[^A-Za-z0-9_.@-]", "_", f.get("full_id") or f["id"] or "obligation")
        rpath = os.path.join(VERIF, "replays", "%s-%s-%s.json" % (pid, name, safe))
        rec = {"property": pid, "unit": name, "functions_under_contract": u["functions"],
               "obligation": f["id"], "obligation_class": f["cls"], "obligation_text": f["desc"],
               "location": "%s:%s (%s)" % (f["file"], f["line"], f["function"]),
               "tier": u["tier"], "variant_defines": list(extra_defs), "inputs": None, "native_replay": None, "verifier_output": None}
        target = None
        if wres is not None and done < 4:
            m = find_matching_property(wres, f)
            if m is not None and m["status"] == "FAILURE":
                target = m
            elif f["cls"] == "contract" and ("loop_invariant" in (f["id"] or "") or "loop_decreases" in (f["id"] or "") or "step" in f["desc"]):
                # proof-internal obligation: look for any property-carrying failure in the witness build
                cands = [r for r in wres if r["status"] == "FAILURE" and r["cls"] in ("safety", "spec", "contract")
                         and "loop_" not in (r["id"] or "")]
                target = cands[0] if cands else None
        if target is not None:
            done += 1
            cmd, rc, out, err, wall = run_cbmc(u, wbin, wuw, extra=["--property", target["id"]], want_trace=True)
            res, msgs, _, _ = parse_cbmc_json(out)
            trace = None
            for r in (res or []):
                if r.get("status") == "FAILURE" and r.get("trace"):
                    trace = r["trace"]
                    break
            if trace:
                inputs = extract_inputs(trace)
                rec["inputs"] = [[k, n, (v.hex() if isinstance(v, bytes) else v)] for k, n, v in inputs]
                rec["witness_obligation"] = target["id"]
                rec["verifier_output"] = "cbmc --property %s --trace: FAILURE; %d trace steps; failing step: %s" % (
                    target["id"], len(trace), json.dumps(trace[-1].get("sourceLocation", {}))[:300])
                if u["native"]:
                    rec["native_replay"] = native_replay(u, workdir, cfg, inputs, extra_defs)
        if rec["verifier_output"] is None:
            rec["verifier_output"] = "cbmc: obligation %s [%s] FAILURE at %s; no concrete input found in the witness build (capacity %s)" % (
                f["id"], f["desc"], rec["location"], " ".join(u["witness_defs"]) or "n/a")
        json.dump(rec, open(rpath, "w"), indent=1)
        reproduced = bool(rec["native_replay"] and rec["native_replay"].get("reproduced"))
        outs.append({"path": rpath, "reproduced": reproduced, "obligation": f})
    return outs


def native_replay(u, workdir, cfg, inputs, extra_defs=(), keep_input_path=None):
    src = os.path.join(VERIF, "units", u["source"])
    exe = os.path.join(workdir, u["unit"] + ".native")
    defs = list(u["defs"]) + list(extra_defs) + ["-DVERIF_NATIVE"] + u["witness_defs"]
    flags = cflags(cfg, defs)
    if u.get("undebug"):
        flags = [f for f in flags if f != "-DNDEBUG"]
    base = ["gcc", "-g", "-O0", "-fsanitize=address,undefined", "-fno-sanitize-recover=undefined", "-w"] + flags + \
           [src, os.path.join(VERIF, "replay", "vin_native.c"), "-o", exe] + u.get("native_libs", [])
    rc, out, err, _ = sh(base, timeout=300)
    if rc != 0:
        # functions of the translation unit that the harness never reaches may reference other library
        # files: give each such symbol a stub that reports if it is ever called
        und = sorted(set(re.findall(r"undefined reference to `([A-Za-z_0-9]+)'", out + err)))
        if und:
            sp = os.path.join(workdir, u["unit"] + ".undef.c")
            with open(sp, "w") as f:
                f.write("#include <stdio.h>\n#include <stdlib.h>\n")
                for x in und:
                    f.write('void %s(void) { fprintf(stderr, "REPLAY: function %s is outside this unit and was called\\n"); exit(4); }\n' % (x, x))
            rc, out, err, _ = sh(base + [sp], timeout=300)
    if rc != 0:
        return {"built": False, "reproduced": False, "output": (out + err)[-1500:]}
    inp = keep_input_path or os.path.join(workdir, u["unit"] + ".inputs")
    with open(inp, "w") as f:
        for k, n, v in inputs:
            f.write("%s %s %s\n" % (k, n, v.hex() if isinstance(v, (bytes, bytearray)) else v))
    env = dict(os.environ)
    env["ASAN_OPTIONS"] = "detect_leaks=0:abort_on_error=0:exitcode=99"
    env["UBSAN_OPTIONS"] = "print_stacktrace=0:halt_on_error=1:exitcode=98"
    rc, out, err, _ = sh([exe, inp], timeout=60, env=env)
    txt = (out + err)
    reproduced = rc in (1, 98, 99)
    return {"built": True, "reproduced": reproduced, "exit": rc, "output": txt[-2500:]}


# ------------------------------------------------------------------ known findings
def load_known():
    """known_findings.txt lines:
       known: property=<id> unit=<unit> match=<regex over 'obligation-class|function|description'> exclude=<-DDEFINE> :: <what fails>
       fixed: property=<id> <commit> <what failed>"""
    kf = []
    p = os.path.join(VERIF, "known_findings.txt")
    if not os.path.exists(p):
        return kf
    for l in open(p):
        l = l.strip()
        if not l.startswith("known:"):
            continue
        head, _, what = l[len("known:"):].partition("::")
        d = dict(re.findall(r"(\w+)=(\S+)", head))
        d["what"] = what.strip()
        kf.append(d)
    return kf


def kf_matches(k, pid, unit, r):
    if k.get("property") != pid or k.get("unit") != unit:
        return False
    key = "%s|%s|%s" % (r["cls"], r["function"], r["desc"])
    return re.search(k.get("match", "."), key) is not None


# ------------------------------------------------------------------ property check
def check_property(pid, tier, seed=0):
    t0 = time.time()
    prop = load_prop(pid)
    units = [n for n in prop["units"] if tier in load_unit(n)["tiers"]]
    # a contract used for replacement must be enforced in the same run
    added = True
    while added:
        added = False
        for n in list(units):
            for r in load_unit(n)["replace"]:
                if isinstance(r, dict) and r.get("proved_by") and r["proved_by"] not in units:
                    units.append(r["proved_by"])
                    added = True
    workdir = tempfile.mkdtemp(prefix="verif.%d." % os.getpid(), dir=SCRATCH_BASE)
    known = load_known()
    violations, undecided, kf_lines = [], [], []
    runs = {}
    try:
        cfg = get_cfg(workdir)
        with ThreadPoolExecutor(max_workers=max(JOBS, 4) * 2) as ex:
            futs = {n: ex.submit(run_unit, n, tier, workdir, cfg) for n in units}
            for n in units:
                runs[n] = futs[n].result()
        for n in units:
            ur = runs[n]
            if ur.status == "undecided":
                undecided.append((n, ur.reason))
                continue
            if ur.status == "ok":
                continue
            failed = ur.failed()
            # known findings: re-run under the discriminator exclusion, anything still failing is new
            ks = [k for k in known if any(kf_matches(k, pid, n, r) for r in failed)] + \
                 [k for k in known if k.get("property") != pid and any(kf_matches(k, k.get("property"), n, r) for r in failed)]
            if ks:
                exdefs = sorted(set(k["exclude"] for k in ks if k.get("exclude")))
                ur2 = run_unit(n, tier, workdir, cfg, extra_defs=exdefs, tag="k")
                ur2.known_excluded = exdefs
                for k in ks:
                    kf_lines.append("KNOWN-FINDING: property=%s %s/%s %s" % (pid, n, k.get("match", ""), k["what"]))
                runs[n] = ur2
                if ur2.status == "undecided":
                    undecided.append((n, "re-run under known-finding exclusion: " + ur2.reason))
                    continue
                if ur2.status == "ok":
                    continue
                failed = ur2.failed()
                ur = ur2
                reps = witness_and_replay(n, tier, workdir, cfg, failed, pid, extra_defs=exdefs)
            else:
                reps = witness_and_replay(n, tier, workdir, cfg, failed, pid)
            for rp in reps:
                violations.append((n, rp))
    except ToolError as e:
        undecided.append(("engine", str(e)))
    finally:
        shutil.rmtree(workdir, ignore_errors=True)
    wall = time.time() - t0
    write_evidence(pid, tier, seed, prop, runs, violations, undecided, kf_lines, wall)
    for l in kf_lines:
        print(l)
    for n, rp in violations:
        ob = rp["obligation"]
        print("VIOLATION property=%s replay=%s unit=%s obligation=%s [%s]%s" % (
            pid, rp["path"], n, ob["id"], ob["desc"][:120], "" if rp["reproduced"] else " no-failing-input-found"))
    for n, why in undecided:
        print("UNDECIDED property=%s unit=%s reason=%s" % (pid, n, why.replace("\n", " ")[:600]))
    summary = {n: (r.status, len(r.results), round(r.wall, 1)) for n, r in runs.items()}
    print("SUMMARY property=%s tier=%s units=%s wall=%.1fs" % (pid, tier, json.dumps(summary), wall))
    if violations:
        return 1
    if undecided:
        return 2
    return 0


def write_evidence(pid, tier, seed, prop, runs, violations, undecided, kf_lines, wall):
    proof_units, bounded_units = [], []
    obligations = discharged = 0
    samples = []
    fns = []
    trusted = list(prop.get("trusted_base", []))
    mustfail = 0
    for n, ur in runs.items():
        u = ur.unit
        real = [r for r in ur.results if r["cls"] in ("contract", "safety", "spec")]
        ok = [r for r in real if r["status"] == "SUCCESS"]
        bycls = {}
        for r in real:
            bycls[r["cls"]] = bycls.get(r["cls"], 0) + 1
        mustfail += len([r for r in ur.results if r["cls"] == "mustfail" and r["status"] == "FAILURE"])
        ent = {"unit": n, "tier": u["tier"], "functions_under_contract": u["functions"], "status": ur.status,
               "reason": ur.reason, "obligations": len(real), "discharged": len(ok), "by_class": bycls,
               "backend": ur.backend, "solver_s": round(ur.solver_s, 2), "wall_s": round(ur.wall, 2),
               "covers": u.get("covers", ""), "bounds": u["bounds"],
               "replaced_callees": [r["bind"] if isinstance(r, dict) else r for r in u["replace"]],
               "loop_contracts": len(u["loops"]), "known_finding_exclusions": getattr(ur, "known_excluded", []),
               "pipeline": ur.cmds}
        for f in u["functions"]:
            if f not in fns:
                fns.append(f)
        for t in u["trusted"]:
            if t not in trusted:
                trusted.append(t)
        if u["tier"] == "proof":
            proof_units.append(ent)
            obligations += len(real)
            discharged += len(ok)
            for r in ok[:2]:
                samples.append({"unit": n, "obligation": r["id"], "text": r["desc"], "at": "%s:%s" % (os.path.basename(r["file"]), r["line"]), "status": r["status"]})
        else:
            bounded_units.append(ent)
            for r in ok[:1]:
                samples.append({"unit": n, "bounded": u["bounds"], "obligation": r["id"], "text": r["desc"], "status": r["status"]})
    level = prop.get("level", "proof")
    if not proof_units and bounded_units:
        level = "other"
    b_ob = sum(e["obligations"] for e in bounded_units)
    b_ok = sum(e["discharged"] for e in bounded_units)
    cov = {
        "obligations": obligations, "discharged": discharged,
        "checker_cmd": "goto-cc <build flags> --function harness units/<unit>.c; goto-instrument --dfcc harness --enforce-contract f/f_contract [--replace-call-with-contract g/g_contract] [--apply-loop-contracts --loop-contracts-file gen.json]; cbmc --json-ui " + " ".join(CHECK_FLAGS) + " (full per-unit pipelines under units[].pipeline)",
        "trusted_base": trusted,
        "functions_under_contract": fns,
        "units": proof_units, "bounded_units": bounded_units,
        "bounded_obligations": b_ob, "bounded_discharged": b_ok,
        "must_fail_checked": mustfail,
        "unverified_remainder": prop.get("remainder", []),
        "paper_lemmas": prop.get("paper_lemmas", []),
        "known_findings_reported": kf_lines,
        "undecided": [{"unit": n, "reason": w[:500]} for n, w in undecided],
        "samples": samples[:12] or [{"note": "no obligation discharged in this run"}],
        "rule": "one case = one proof obligation generated by goto-instrument --dfcc / cbmc from the contract and the real source; bounded-tier units are counted separately and never as proof",
        "explanation": prop.get("explanation", "contract-based deductive verification of the real libcoap sources with CBMC code contracts; proof-tier units have all sizes symbolic and loops closed by loop contracts or code-constant bounds; bounded-tier units state their capacity"),
        "exhaustive": False,
    }
    if level == "other" or obligations == 0:
        cov["evaluations"] = obligations + b_ob
        cov["distinct_nontrivial"] = discharged + b_ok
    ev = {"property_id": pid, "tier": tier, "seed": seed, "level": level, "coverage": cov,
          "assumptions": prop.get("assumptions", []) + ["machine arithmetic is bit-precise (CBMC), LP64 x86_64 model",
                                                          "build configuration: the CMake-generated headers of the current tree, -DNDEBUG"],
          "wall_s": round(wall, 2), "violations": len(violations)}
    evdir = os.environ.get("VERIF_EVIDENCE_DIR") or os.path.join(VERIF, "evidence")   # (mutrun points this elsewhere)
    os.makedirs(evdir, exist_ok=True)
    json.dump(ev, open(os.path.join(evdir, pid + ".json"), "w"), indent=1)


def replay_file(pid, path):
    """vcheck <id> --replay FILE : re-run the native replay recorded in a replay file"""
    rec = json.load(open(path))
    u = load_unit(rec["unit"])
    if not rec.get("inputs") or not u["native"]:
        print("replay file carries no concrete inputs (obligation %s: %s)" % (rec["obligation"], rec["obligation_text"]))
        print(rec.get("verifier_output", ""))
        return 1
    workdir = tempfile.mkdtemp(prefix="verif.replay.", dir=SCRATCH_BASE)
    try:
        cfg = get_cfg(workdir)
        inputs = [(k, n, bytes.fromhex(v) if k == "B" else v) for k, n, v in rec["inputs"]]
        r = native_replay(u, workdir, cfg, inputs)
        print(r.get("output", ""))
        print("reproduced" if r.get("reproduced") else "not reproduced")
        return 1 if r.get("reproduced") else 0
    finally:
        shutil.rmtree(workdir, ignore_errors=True)


def main(argv):
    import argparse
    ap = argparse.ArgumentParser()
    ap.add_argument("property")
    ap.add_argument("--tier", default=os.environ.get("VERIF_TIER", "quick"))
    ap.add_argument("--replay")
    ap.add_argument("--unit", help="run a single unit and print its obligations (development)")
    ap.add_argument("--witness", action="store_true", help="with --unit: search concrete inputs for the failures and replay them natively")
    a = ap.parse_args(argv)
    if a.replay:
        return replay_file(a.property, a.replay)
    if a.unit:
        workdir = tempfile.mkdtemp(prefix="verif.dev.", dir=SCRATCH_BASE)
        try:
            cfg = get_cfg(workdir)
            ur = run_unit(a.unit, a.tier, workdir, cfg, extra_defs=[d for d in os.environ.get("VERIF_DEFS", "").split() if d])
            print("unit %s: %s %s  wall %.1fs solver %.1fs  obligations %d" % (a.unit, ur.status, ur.reason, ur.wall, ur.solver_s, len(ur.results)))
            for r in ur.results:
                if r["status"] != "SUCCESS":
                    print("  %-8s %-9s %s  [%s] %s:%s" % (r["status"], r["cls"], r["id"], r["desc"][:150], os.path.basename(r["file"]), r["line"]))
            if a.witness and ur.failed():
                reps = witness_and_replay(a.unit, a.tier, workdir, cfg, ur.failed()[:3], a.property)
                for rp in reps:
                    rec = json.load(open(rp["path"]))
                    print("  witness for %s: inputs=%s" % (rec["obligation"], json.dumps(rec["inputs"])[:1500]))
                    print("  native replay: %s" % json.dumps(rec["native_replay"])[:1200])
            if os.environ.get("VERIF_KEEP"):
                print("kept", workdir)
                workdir = None
        finally:
            if workdir:
                shutil.rmtree(workdir, ignore_errors=True)
        return 0
    seed = int(os.environ.get("VERIF_SEED", "0") or 0)
    return check_property(a.property, a.tier, seed)


if __name__ == "__main__":
    sys.exit(main(sys.argv[1:]))
