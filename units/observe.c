/* units observe_counter / observe_serial / observe_notify_b (-DWHICH=1..3): C11 sequence-number step and NON/CON rule */
#include "coap3/coap_libcoap_build.h"
#include "spec/vin.h"
#include "spec/lock_ghost.h"
/* ghost log of what coap_notify_observers hands to its callees */
int G_track; uint32_t G_track_value; int G_io_timer;
int G_nsend; int G_send_type[3]; coap_session_t *G_send_session[3]; coap_pdu_t *G_send_pdu[3];
int G_obs_opt; uint32_t G_obs_val[3]; int G_has_obs[3]; int G_send_code[3]; int G_tok; size_t G_tok_len[3]; const uint8_t *G_tok_s[3]; int G_handler;
int coap_delete_observer_contract(coap_resource_t *resource, coap_session_t *session, const coap_bin_const_t *token)
__CPROVER_requires(1) __CPROVER_assigns() __CPROVER_ensures(1);
#include "src/coap_resource.c"
#if WHICH == 4
/* coap_check_notify_lkd is verified against this contract of coap_notify_observers: a call notifies one resource and either
 * asks for another round (observe_pending = 1: some observer could not be served now) or leaves the flag alone */
int G_notified, G_retry; coap_resource_t *G_notified_r[2];
static void coap_notify_observers_contract(coap_context_t *context, coap_resource_t *r, coap_deleting_resource_t deleting)
__CPROVER_requires(__CPROVER_w_ok(context, sizeof(*context)) && __CPROVER_r_ok(r, sizeof(*r)) && deleting == COAP_NOT_DELETING_RESOURCE)
__CPROVER_assigns(context->observe_pending, G_notified, G_retry, G_notified_r[0], G_notified_r[1])
__CPROVER_ensures(G_notified == __CPROVER_old(G_notified) + 1)
__CPROVER_ensures(__CPROVER_old(G_notified) >= 2 || G_notified_r[__CPROVER_old(G_notified)] == r)
__CPROVER_ensures((context->observe_pending == 1 && G_retry == 1) || (context->observe_pending == __CPROVER_old(context->observe_pending) && G_retry == __CPROVER_old(G_retry)));
#endif
#include "src/coap_threadsafe.c"
#include "src/coap_encode.c"
#include "stubs/base.h"
#include "stubs/time_prng.h"
#include "stubs/mem_havoc.h"
#ifndef VERIF_NATIVE
void coap_update_io_timer(coap_context_t *c, coap_tick_t d) { (void)c; (void)d; G_io_timer++; }
static void track_cb(coap_context_t *c, coap_str_const_t *n, uint32_t v, void *u) { (void)c; (void)n; (void)u; G_track++; G_track_value = v; }
int nondet_mid_res(void); _Bool nondet_ok(void); uint8_t nondet_code(void);
size_t coap_session_max_pdu_size_lkd(const coap_session_t *s) { (void)s; return 1152; }
coap_pdu_t *coap_pdu_init(coap_pdu_type_t type, coap_pdu_code_t code, coap_mid_t mid, size_t size) { (void)size; coap_pdu_t *p = coap_malloc_type(COAP_PDU, sizeof(coap_pdu_t)); if (p) { p->type = type; p->code = code; p->mid = mid; p->data = NULL; p->used_size = 0; p->max_opt = 0; } return p; }
void coap_delete_pdu(coap_pdu_t *p) { coap_free_type(COAP_PDU, p); }
/* the stubs of the PDU builders record token and Observe value IN the response PDU (fields of the stub PDU used as ghost
 * storage), the send stub logs them: so the log is per notification actually sent */
int coap_add_token(coap_pdu_t *pdu, size_t len, const uint8_t *data) { pdu->actual_token.length = len; pdu->actual_token.s = data; G_tok++; return nondet_ok(); }
uint16_t coap_new_message_id_lkd(coap_session_t *s) { (void)s; return (uint16_t)nondet_mid_res(); }
size_t coap_add_option_internal(coap_pdu_t *pdu, coap_option_num_t number, size_t len, const uint8_t *data) {
  (void)pdu; if (number == COAP_OPTION_OBSERVE) { uint32_t v = 0; for (size_t i = 0; i < 4; i++) if (i < len) v = (v << 8) | data[i]; pdu->used_size = v; pdu->max_opt = 1; G_obs_opt++; } return len + 1; }
int coap_get_block_b(const coap_session_t *s, const coap_pdu_t *p, coap_option_num_t n, coap_block_b_t *b) { (void)s; (void)p; (void)n; (void)b; return 0; }
coap_string_t *coap_get_query(const coap_pdu_t *p) { (void)p; return NULL; }
void coap_show_pdu(coap_log_t l, const coap_pdu_t *p) { (void)l; (void)p; }
int coap_check_code_class(coap_session_t *s, coap_pdu_t *p) { (void)s; (void)p; return 1; }
void coap_check_code_lg_xmit(const coap_session_t *s, const coap_pdu_t *q, coap_pdu_t *r, const coap_resource_t *res, const coap_string_t *qy) { (void)s; (void)q; (void)r; (void)res; (void)qy; }
void coap_delete_string(coap_string_t *s) { (void)s; }
int coap_remove_option(coap_pdu_t *p, coap_option_num_t n) { if (n == COAP_OPTION_OBSERVE) p->max_opt = 0; return 1; }
coap_mid_t coap_send_internal(coap_session_t *s, coap_pdu_t *p) { if (G_nsend < 3) { G_send_type[G_nsend] = p->type; G_send_session[G_nsend] = s; G_send_pdu[G_nsend] = p; G_tok_len[G_nsend] = p->actual_token.length; G_tok_s[G_nsend] = p->actual_token.s; G_obs_val[G_nsend] = (uint32_t)p->used_size; G_has_obs[G_nsend] = p->max_opt; G_send_code[G_nsend] = p->code; } G_nsend++; return nondet_mid_res(); }
coap_mid_t coap_send_q_block2(coap_session_t *s, coap_resource_t *r, const coap_string_t *q, coap_pdu_code_t c, coap_block_b_t b, coap_pdu_t *p, coap_send_pdu_t t) { (void)s; (void)r; (void)q; (void)c; (void)b; (void)p; (void)t; return COAP_INVALID_MID; }
static void get_handler(coap_resource_t *r, coap_session_t *s, const coap_pdu_t *q, const coap_string_t *qy, coap_pdu_t *resp) { (void)r; (void)s; (void)q; (void)qy; G_handler++; resp->code = nondet_code(); }
#endif
/* RFC 7641 3.4: V2 is newer than V1 (24-bit serial numbers) */
#define SERIAL24_GT(v2, v1) (((v1) < (v2) && (v2) - (v1) < (1u << 23)) || ((v1) > (v2) && (v1) - (v2) > (1u << 23)))
void harness(void) {
#if WHICH == 2
  IN_SCALAR(uint32_t, v); ASSUME(v <= 0xFFFFFF);
  CHECK(SERIAL24_GT(((v + 1) & 0xFFFFFF), v), "RFC 7641 3.4: (v+1) mod 2^24 is strictly newer than v for every 24-bit v");
  MUSTFAIL(v != 0xFFFFFF, "wrap_reachable");
#elif WHICH == 4
  /* coap_check_notify_lkd over a resource table of 0..2 entries (uthash iteration order = hh.next chain) */
  static coap_context_t ctx_o; static coap_resource_t res_o[2]; coap_context_t *ctx = &ctx_o;
  IN_SCALAR(uint8_t, nres); IN_SCALAR(_Bool, pending); ASSUME(nres <= 2);
  for (int i = 0; i < 2; i++) { res_o[i].hh.next = (i + 1 < nres) ? &res_o[i + 1] : NULL; res_o[i].context = ctx; }
  ctx->resources = nres ? &res_o[0] : NULL; ctx->observe_pending = pending;
  G_notified = 0; G_retry = 0; G_notified_r[0] = G_notified_r[1] = NULL;
  coap_check_notify_lkd(ctx);
  CHECK(G_notified == (pending ? nres : 0), "with a change pending every resource is given to coap_notify_observers exactly once, otherwise none");
  CHECK(!pending || nres < 1 || G_notified_r[0] == &res_o[0], "first resource notified"); CHECK(!pending || nres < 2 || G_notified_r[1] == &res_o[1], "second resource notified");
  CHECK(!G_retry || ctx->observe_pending == 1, "a notification round that could not serve every observer stays pending (the latest state is notified by a later round)");
  CHECK(G_retry || ctx->observe_pending == 0 || !pending, "a completed round clears the pending flag");
  MUSTFAIL(!(G_retry && G_notified == 2), "retry_reachable"); MUSTFAIL(!(pending && !G_retry && nres == 2), "completed_reachable");
#else
  static coap_context_t ctx_o; static coap_resource_t r_o; coap_context_t *ctx = &ctx_o; coap_resource_t *r = &r_o;   /* static objects: see ws_frame.c */
  IN_SCALAR(uint32_t, observe); IN_SCALAR(_Bool, observable); IN_SCALAR(_Bool, has_sub); IN_SCALAR(uint32_t, freq); IN_SCALAR(_Bool, has_track);
#ifdef FREQ
  ASSUME(freq == FREQ);   /* the save frequency is enumerated by the unit's variants (a constant divisor keeps '%' decidable) */
#endif
  ASSUME(observe <= 0xFFFFFF && freq >= 1 && freq <= 1000);
  static coap_subscription_t sub0, sub1; static coap_pdu_t opdu0, opdu1; coap_subscription_t *const sub[2] = { &sub0, &sub1 }; coap_pdu_t *const opdu[2] = { &opdu0, &opdu1 };   /* separate objects, not arrays of structs: a pointer into an array of large structs is a symbolic offset for cbmc */
  static coap_session_t sess0, sess1; coap_session_t *const sess[2] = { &sess0, &sess1 };
  IN_SCALAR(_Bool, was_dirty); IN_SCALAR(_Bool, was_partially);
  r->context = ctx; r->observable = observable; r->observe = observe; r->dirty = was_dirty; r->partiallydirty = was_partially; r->flags = 0;
  ctx->observe_save_freq = freq; ctx->observe_pending = 0; ctx->observe_user_data = NULL;
  G_track = 0; G_io_timer = 0; G_nsend = 0; G_obs_opt = 0; G_tok = 0; G_handler = 0; G_mutex_ops = 0;
#if WHICH == 1
  ctx->track_observe_value = has_track ? track_cb : NULL; coap_track_observe_value_t keep = track_cb; (void)keep;
  r->subscribers = has_sub ? sub[0] : NULL;
  int ret = coap_resource_notify_observers_lkd(r, NULL);
  int active = observable && has_sub;
  CHECK(ret == active, "a change is accepted exactly when the resource is observable and has a subscriber");
  CHECK(active || (r->observe == observe && r->dirty == was_dirty && ctx->observe_pending == 0 && G_track == 0), "otherwise nothing changes");
  /* (a change signalled while the previous one has not been notified to ANYBODY yet - dirty already set - may share its value;
   *  whenever a notification with the old value may already have gone out, i.e. also in the partially-notified state, the value must advance) */
  CHECK(!active || was_dirty || (r->observe == ((observe + 1) & 0xFFFFFF) && SERIAL24_GT(r->observe, observe)), "each change advances the Observe value to a strictly newer 24-bit serial number (also while some observers are still waiting for the previous one)");
  CHECK(!active || r->observe == observe || r->observe == ((observe + 1) & 0xFFFFFF), "the Observe value never moves other than one step forward");
  CHECK(!active || (r->dirty == 1 && ctx->observe_pending == 1 && G_io_timer == 1), "the resource is marked dirty and the I/O loop is woken");
  CHECK(!active || r->observe == observe || G_track == ((has_track && (r->observe % freq) == 0) ? 1 : 0), "the persistence callback runs exactly when the new value is a multiple of the save frequency");
  CHECK(!G_track || G_track_value == r->observe, "and is given the new value");
  MUSTFAIL(!(active && observe == 0xFFFFFF), "wrap_reachable"); MUSTFAIL(!G_track, "track_reachable");
#else
  /* one or two subscribers on datagram sessions, GET handler = stub, lock held by this thread */
  IN_SCALAR(uint8_t, nsub); IN_SCALAR(uint8_t, nc0); IN_SCALAR(uint8_t, nc1); IN_SCALAR(int, rflags); IN_SCALAR(uint8_t, ca0); IN_SCALAR(uint8_t, ca1); IN_SCALAR(uint64_t, me);
  ASSUME(nsub >= 1 && nsub <= 2 && nc0 <= COAP_OBS_MAX_NON && nc1 <= COAP_OBS_MAX_NON && me != 0);
  ASSUME((rflags & ~(COAP_RESOURCE_FLAGS_NOTIFY_CON | COAP_RESOURCE_FLAGS_NOTIFY_NON_ALWAYS | COAP_RESOURCE_FLAGS_NOTIFY_NON)) == 0);
  G_me = (pthread_t)me; coap_started = 1; global_lock.pid = G_me; global_lock.in_callback = 0; global_lock.lock_count = 0; G_held = 1;
  const uint8_t nc[2] = { nc0, nc1 }, ca[2] = { ca0, ca1 };
  for (int i = 0; i < 2; i++) { sub[i]->next = (i + 1 < nsub) ? sub[i + 1 < 2 ? i + 1 : 1] : NULL; sub[i]->session = sess[i]; sub[i]->non_cnt = nc[i]; sub[i]->fail_cnt = 0; sub[i]->dirty = 0; sub[i]->pdu = opdu[i];
    sess[i]->con_active = ca[i]; sess[i]->nstart = 1; sess[i]->proto = COAP_PROTO_UDP; sess[i]->lg_xmit = NULL; sess[i]->context = ctx;
    opdu[i]->code = COAP_REQUEST_CODE_GET; opdu[i]->actual_token.length = 2 + i; opdu[i]->actual_token.s = (const uint8_t *)opdu[i]; }
  ASSUME(ca0 <= 1 && ca1 <= 1);
  static coap_str_const_t upath; upath.s = (const uint8_t *)"a"; upath.length = 1; r->uri_path = &upath;   /* read by a debug log argument */
  r->observable = 1; r->dirty = 1; r->subscribers = sub[0]; r->flags = rflags; r->handler[COAP_REQUEST_CODE_GET - 1] = get_handler; coap_method_handler_t keep = get_handler; (void)keep;
  coap_notify_observers(ctx, r, COAP_NOT_DELETING_RESOURCE);
  CHECK(G_nsend <= nsub, "at most one notification per subscriber and change");
  CHECK(G_obs_opt >= G_nsend, "every notification carries an Observe option");
  for (int k = 0; k < 2; k++) if (k < G_nsend) {
    int i = G_send_session[k] == sess[0] ? 0 : 1;
    CHECK(COAP_RESPONSE_CLASS(G_send_code[k]) != 2 ? !G_has_obs[k] : (G_has_obs[k] && G_obs_val[k] == observe), "a 2.xx notification carries an Observe option whose value is the resource's current sequence number; any other response carries none");
    CHECK(G_tok_len[k] == opdu[i]->actual_token.length && G_tok_s[k] == opdu[i]->actual_token.s, "a notification carries the token of that observer's registration");
    /* at least every (COAP_OBS_MAX_NON+1)-th notification is Confirmable: NON only while fewer than MAX_NON in a row */
    CHECK(G_send_type[k] == COAP_MESSAGE_CON || (rflags & COAP_RESOURCE_FLAGS_NOTIFY_NON_ALWAYS) || nc[i] < COAP_OBS_MAX_NON, "a notification is Non-confirmable only while fewer than COAP_OBS_MAX_NON went out in a row (so at least every sixth is Confirmable)");
    CHECK(COAP_RESPONSE_CLASS(G_send_code[k]) > 2 || (G_send_type[k] == COAP_MESSAGE_CON ? sub[i]->non_cnt == 0 : ((rflags & COAP_RESOURCE_FLAGS_NOTIFY_NON_ALWAYS) ? sub[i]->non_cnt == 0 : sub[i]->non_cnt == nc[i] + 1)), "the run-length counter is reset by a Confirmable and incremented by a Non-confirmable notification");
    CHECK(sub[i]->non_cnt <= COAP_OBS_MAX_NON, "the run-length counter never exceeds COAP_OBS_MAX_NON");
  }
  CHECK(G_held == 1 && global_lock.pid == G_me, "the lock is held again when coap_notify_observers returns");
  MUSTFAIL(!(G_nsend == 2), "two_notifications_reachable"); MUSTFAIL(!(G_nsend >= 1 && G_send_type[0] == COAP_MESSAGE_NON), "non_reachable"); MUSTFAIL(!(G_nsend >= 1 && G_send_type[0] == COAP_MESSAGE_CON && nc0 == COAP_OBS_MAX_NON), "forced_con_reachable");
#endif
#endif
}
