/* units block_num_decode / setup_block_b / add_block (-DWHICH=1..3): block option arithmetic of RFC 7959 (C09) */
#include "coap3/coap_libcoap_build.h"
#include "spec/vin.h"
#include "spec/c_option.h"
#include "spec/c_pdu.h"
#include "src/coap_block.c"
#include "src/coap_option.c"
#include "src/coap_encode.c"
#include "src/coap_pdu.c"
#include "stubs/base.h"
#include "stubs/time_prng.h"
#include "stubs/mem_havoc.h"
void harness(void) {
#if WHICH == 1
  IN_SCALAR(size_t, n);
  IN_BUF(buf, n, 12);
  ASSUME(WELLFORMED(buf, n) && LENV(buf) <= 4);
  /* RFC 7959 2.2: the option value is an unsigned integer V of 0..3 (4) bytes; NUM = V >> 4 */
  uint32_t V = 0;
  for (uint32_t i = 0; i < 4; i++) if (i < LENV(buf)) V = (V << 8) | buf[HDR(buf) + i];
  unsigned int r = coap_opt_block_num(buf);
  CHECK(r == (V >> 4), "coap_opt_block_num equals the RFC 7959 NUM field (value >> 4)");
  CHECK(LENV(buf) == 0 ? (COAP_OPT_BLOCK_MORE(buf) == 0 && COAP_OPT_BLOCK_SZX(buf) == 0)
                       : ((COAP_OPT_BLOCK_MORE(buf) != 0) == ((V >> 3) & 1) && COAP_OPT_BLOCK_SZX(buf) == (V & 7)), "M and SZX macros equal the RFC 7959 bit fields");
  MUSTFAIL(r != 0xFFFFFu, "max_num_reachable");
#elif WHICH == 2
  HARNESS_PDU(pdu);
  IN_SCALAR(unsigned int, num); IN_SCALAR(unsigned int, szx); IN_SCALAR(size_t, total);
  IN_SCALAR(uint8_t, defined); IN_SCALAR(uint8_t, bert);
  ASSUME(max_size != 0);
  ASSUME(szx <= 6 && num <= 0xFFFFFu && total <= (1u << 24));
  unsigned int start = num << (szx + 4);
  ASSUME(start <= total);
  coap_block_b_t block;
#ifdef VERIF_NATIVE
  memset(&block, 0, sizeof block);
#endif
  block.defined = defined & 1; block.bert = bert & 1;
  size_t token_options = data_off ? data_off : used_size;
  size_t avail = max_size - token_options;
  int r = setup_block_b(NULL, pdu, &block, num, szx, total);   /* no session: no BERT */
  CHECK(r == 0 || r == 1, "setup_block_b returns 0 or 1");
  CHECK(r == 1 || avail < 16, "setup_block_b refuses only when not even the smallest block fits");
  CHECK(!r || block.bert == 0, "setup_block_b: no BERT without a reliable session");
  CHECK(!r || block.szx <= szx, "setup_block_b: SZX only ever reduced");
  CHECK(!r || block.chunk_size == (1u << (block.szx + 4)), "setup_block_b: chunk size is 2^(SZX+4)");
  CHECK(!r || block.aszx == block.szx, "setup_block_b: the SZX to put on the wire is the (possibly reduced) SZX");
  CHECK(!r || ((uint64_t)block.num << (block.szx + 4)) == start, "setup_block_b: reducing the block size keeps the byte offset of the block");
  CHECK(!r || block.m == (block.chunk_size < total - start), "setup_block_b: M is set exactly when more of the body follows this block");
  CHECK(!r || !block.m || block.chunk_size <= avail || block.szx == szx, "setup_block_b: a reduced block fits the space that is available");
  MUSTFAIL(!(r && block.szx < szx), "reduction_reachable");
  MUSTFAIL(r, "refusal_reachable");
#else
  HARNESS_PDU(pdu);
  IN_SCALAR(size_t, len); IN_SCALAR(unsigned int, block_num); IN_SCALAR(uint8_t, szx);
  ASSUME(len <= MAXRX && szx <= 6 && block_num <= 0xFFFFFu);
  IN_BUF(body, len, 64);
  G_old_doff = data_off;
  uint8_t *old_data = pdu->data;
  unsigned int start = block_num << (szx + 4);
  int r = coap_add_block(pdu, len, body, block_num, szx);
  size_t want = len > start ? (len - start < ((size_t)1 << (szx + 4)) ? len - start : ((size_t)1 << (szx + 4))) : 0;
  CHECK(r == 0 || r == 1, "coap_add_block returns 0 or 1");
  CHECK(!r || (len > start && old_data == NULL && pdu->data == pdu->token + used_size + 1 && pdu->used_size == used_size + 1 + want), "coap_add_block adds exactly min(len-start, 2^(SZX+4)) payload bytes behind a payload marker");
  CHECK(r || pdu->used_size == used_size, "coap_add_block: refusal leaves the message size unchanged");
  CHECK(len > start || r == 0, "coap_add_block refuses a block that starts at or beyond the end of the body");
  MUSTFAIL(!(r && want < ((size_t)1 << (szx + 4))), "short_last_block_reachable");
  MUSTFAIL(r, "refusal_reachable");
#endif
}
