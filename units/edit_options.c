/* units remove_option_b / insert_option_b / update_option_b / add_option_b  (bounded tier, -DWHICH=1..4)
 *
 * C04/C01: the in-place option editors against the abstract (token, ordered option list, payload) model.
 *
 * Bounded by ENUMERATED LAYOUTS: the message before the edit is constructed from compile-time parameters
 *   NOPT (1..3 options), C0/C1/C2 (delta encoding class of each option: 0 = nibble, 1 = one extension byte,
 *   2 = two extension bytes), L0/L1/L2 (value lengths), HASP (payload of 2 bytes present), TK (token bytes),
 *   NEWLEN (length of the new value for insert/update/add)
 * so every offset is a constant for the solver, while the delta VALUES inside their class (hence option
 * numbers 0..65535 and every 13/269 header growth/shrink case of the follower), all value/token/payload bytes,
 * the named option number, the slack in alloc_size (forces or avoids realloc) and allocator failure stay symbolic.
 * The engine runs one verification per layout (unit .json "variants").
 * Post: an independent RFC 7252 3.1 walk over the result decodes exactly the model edit; token and payload
 * bytes unchanged; PDU invariant holds; nothing written beyond alloc_size.
 */
#include "coap3/coap_libcoap_build.h"
#include "spec/vin.h"
#ifndef NOPT
#define NOPT 2
#endif
#ifndef C0
#define C0 0
#endif
#ifndef C1
#define C1 0
#endif
#ifndef C2
#define C2 0
#endif
#ifndef L0
#define L0 1
#endif
#ifndef L1
#define L1 1
#endif
#ifndef L2
#define L2 1
#endif
#ifndef HASP
#define HASP 1
#endif
#ifndef TK
#define TK 1
#endif
#ifndef NEWLEN
#define NEWLEN 2
#endif
#define CAP 64
#define KMAX 4
#define PDU_MAXA CAP
#define PDU_FIXED_BLOCK (CAP + 6)
#define ALLOC_CAP (CAP + 6)
#include "spec/c_option.h"
#include "spec/c_pdu.h"
#include "spec/optlist_model.h"
#include "src/coap_pdu.c"
#include "src/coap_option.c"
#include "src/coap_encode.c"
#include "stubs/alloc_bounded.h"
#include "stubs/mem_loops.h"

#define CLS_OK(c, d) ((c) == 0 ? (d) < 13u : (c) == 1 ? ((d) >= 13u && (d) < 269u) : ((d) >= 269u && (d) <= 65535u))
/* independent encoder of one option header (RFC 7252 3.1) for a compile-time delta class and a value length < 13;
 * value bytes are left as they are.  Evaluates to the header size (a constant). */
#define SPEC_PUT_HEADER(b, cls, d, l) \
  ((cls) == 0 ? ((b)[0] = (uint8_t)(((d) << 4) | (l)), 1u) : \
   (cls) == 1 ? ((b)[0] = (uint8_t)((13u << 4) | (l)), (b)[1] = (uint8_t)((d) - 13u), 2u) : \
                ((b)[0] = (uint8_t)((14u << 4) | (l)), (b)[1] = (uint8_t)(((d) - 269u) >> 8), (b)[2] = (uint8_t)(((d) - 269u) & 0xff), 3u))
#define SAME_VALUE(a, ma, i, b, mb, j, g) \
  ((ma).o[i].len == (mb).o[j].len && ((g) >= (ma).o[i].len || (a)[(ma).o[i].vpos + (g)] == (b)[(mb).o[j].vpos + (g)]))
#define SAME_OPT(a, ma, i, b, mb, j, g) ((ma).o[i].num == (mb).o[j].num && SAME_VALUE(a, ma, i, b, mb, j, g))

void harness(void) {
  /* ---- symbolic scalars */
  IN_SCALAR(uint32_t, d0); IN_SCALAR(uint32_t, d1); IN_SCALAR(uint32_t, d2);
  IN_SCALAR(uint16_t, number);
  IN_SCALAR(size_t, slack);                 /* alloc_size - used_size */
  IN_SCALAR(size_t, g);                     /* ghost byte index */
  IN_SCALAR(uint8_t, pcode);
  IN_BYTES(val, 24);
  IN_BUF_FIXED(blk, PDU_FIXED_BLOCK);
  ASSUME(CLS_OK(C0, d0) && CLS_OK(C1, d1) && CLS_OK(C2, d2));
  ASSUME((uint64_t)d0 + (NOPT > 1 ? d1 : 0) + (NOPT > 2 ? d2 : 0) <= 65535u);
  ASSUME(slack <= 8);
  /* ---- construct the message: token | options | [FF payload] at constant offsets */
  uint8_t *tokp = blk + 6;
  struct optlist_m pre; pre.n = NOPT;
  size_t p = TK;
  uint32_t num = 0;
#define PUT_OPT(i, cls, d, l) do { num += (d); pre.o[i].num = num; pre.o[i].len = (l); pre.o[i].pos = p; \
    p += SPEC_PUT_HEADER(tokp + p, cls, d, l); pre.o[i].vpos = p; p += (l); } while (0)
  PUT_OPT(0, C0, d0, L0);
#if NOPT > 1
  PUT_OPT(1, C1, d1, L1);
#endif
#if NOPT > 2
  PUT_OPT(2, C2, d2, L2);
#endif
  pre.stop = p;
  size_t data_off = 0;
  if (HASP) { tokp[p] = 0xFF; data_off = p + 1; p += 3; }
  const size_t used_size = p;
  ASSUME(used_size + slack <= CAP);
  coap_pdu_t *pdu = VH_PDU_ALLOC(); ASSUME(pdu != NULL);
  pdu->max_hdr_size = 6; pdu->hdr_size = 0; pdu->session = NULL; pdu->alloc_size = used_size + slack; pdu->max_size = CAP;
  pdu->used_size = used_size; pdu->token = tokp; pdu->actual_token.length = TK; pdu->actual_token.s = tokp;
  pdu->e_token_length = TK; pdu->data = data_off ? tokp + data_off : NULL; pdu->max_opt = (uint16_t)num;
  pdu->type = COAP_MESSAGE_CON; pdu->code = (coap_pdu_code_t)pcode; pdu->mid = 1;
  const size_t alloc_size = pdu->alloc_size;
  const uint16_t max_opt = pdu->max_opt;
  uint8_t before[CAP];
  for (size_t i = 0; i < CAP; i++) before[i] = tokp[i];
  const size_t pay_len = data_off ? used_size - data_off : 0;
  G_old_doff = data_off;
  const size_t len = NEWLEN;

  int jeq = -1, jgt = -1;
  for (int i = NOPT - 1; i >= 0; i--) { if (pre.o[i].num == number) jeq = i; if (pre.o[i].num > number) jgt = i; }

#if WHICH == 1
  int r = coap_remove_option(pdu, number);
#elif WHICH == 2
  ASSUME(number < max_opt);                           /* the real insertion path (otherwise it appends: WHICH 4) */
  size_t r = coap_insert_option(pdu, number, len, val.b);
#elif WHICH == 3
  ASSUME(jeq >= 0);                                   /* option present: update in place (absent = insert: WHICH 2) */
  size_t r = coap_update_option(pdu, number, len, val.b);
#else
  ASSUME(number >= max_opt && !data_off);             /* append path of coap_add_option_internal */
  ASSUME(!(COAP_PDU_IS_REQUEST(pdu) && (number == COAP_OPTION_PROXY_URI || number == COAP_OPTION_PROXY_SCHEME)));
  size_t r = coap_add_option_internal(pdu, number, len, val.b);
#endif

  /* ---- postcondition */
  struct optlist_m post;
  size_t doff2 = pdu->data ? (size_t)(pdu->data - pdu->token) : 0;
  size_t opt_end2 = doff2 ? doff2 - 1 : pdu->used_size;
  CHECK(pdu->used_size <= pdu->alloc_size && pdu->alloc_size <= pdu->max_size, "editor keeps used_size <= alloc_size <= max_size");
  CHECK(pdu->token != tokp || g < alloc_size || g >= CAP || tokp[g] == before[g], "editor writes nothing beyond alloc_size");
  CHECK((doff2 == 0) == (data_off == 0) && (!doff2 || (doff2 > pdu->e_token_length && doff2 < pdu->used_size)), "editor keeps the payload pointer inside the message");
  CHECK(pdu->e_token_length == TK && (g >= TK || pdu->token[g] == before[g]), "editor leaves the token untouched");
  CHECK(!doff2 || (pdu->token[doff2 - 1] == 0xFF && pdu->used_size - doff2 == pay_len && (g >= pay_len || pdu->token[doff2 + g] == before[data_off + g])), "editor leaves payload marker and payload bytes unchanged");
  int ok = spec_decode_options(pdu->token, pdu->e_token_length, opt_end2, &post);
  CHECK(ok && post.stop == opt_end2, "after the edit the options region is again a sequence of well-formed options ending at the marker/end");
  ASSUME(ok);
  CHECK(pdu->max_opt == (post.n ? post.o[post.n - 1].num : 0), "max_opt is the number of the last option");
#define UNCHANGED_LIST() (post.n == pre.n && \
      (0 >= NOPT || SAME_OPT(pdu->token, post, 0, before, pre, 0, g)) && (1 >= NOPT || SAME_OPT(pdu->token, post, 1, before, pre, 1, g)) && \
      (2 >= NOPT || SAME_OPT(pdu->token, post, 2, before, pre, 2, g)))
#if WHICH == 1
  CHECK(r == (jeq >= 0), "coap_remove_option succeeds iff an option with that number exists");
  if (r) {
    CHECK(post.n == pre.n - 1, "coap_remove_option removes exactly one option");
    for (int i = 0; i < NOPT - 1; i++) if (i < post.n) {
      int src = i < jeq ? i : i + 1;
      CHECK(SAME_OPT(pdu->token, post, i, before, pre, src, g), "coap_remove_option: every other option keeps number, value and relative position");
    }
  } else {
    CHECK(UNCHANGED_LIST(), "coap_remove_option: nothing changes when the option is absent");
  }
  MUSTFAIL(!r, "remove_reachable");
  MUSTFAIL(r, "absent_reachable");
#elif WHICH == 2
  if (r) {
    CHECK(r == HDRSZ(number - (jgt > 0 ? pre.o[jgt - 1].num : 0), len) + len, "coap_insert_option returns the encoded size of the new option");
    CHECK(post.n == pre.n + 1, "coap_insert_option adds exactly one option");
    for (int i = 0; i < NOPT + 1; i++) if (i < post.n) {
      if (i < jgt) CHECK(SAME_OPT(pdu->token, post, i, before, pre, i, g), "coap_insert_option: options before the insertion point unchanged");
      else if (i == jgt) CHECK(post.o[i].num == number && post.o[i].len == len && (g >= len || pdu->token[post.o[i].vpos + g] == val.b[g]), "coap_insert_option: the new option sits before the first larger number with the given value");
      else CHECK(SAME_OPT(pdu->token, post, i, before, pre, i - 1, g), "coap_insert_option: options after the insertion point keep number and value");
    }
  } else {
    CHECK(UNCHANGED_LIST(), "coap_insert_option: a refused insertion changes nothing");
  }
  MUSTFAIL(!r, "insert_reachable");
  MUSTFAIL(r != 0, "refusal_reachable");
#elif WHICH == 3
  if (r) {
    CHECK(post.n == pre.n, "coap_update_option keeps the number of options");
    for (int i = 0; i < NOPT; i++) {
      if (i == jeq) CHECK(post.o[i].num == number && post.o[i].len == len && (g >= len || pdu->token[post.o[i].vpos + g] == val.b[g]), "coap_update_option: the named option has the new value");
      else CHECK(SAME_OPT(pdu->token, post, i, before, pre, i, g), "coap_update_option: every other option keeps number, value and position");
    }
  } else {
    CHECK(UNCHANGED_LIST(), "coap_update_option: a refused update changes nothing");
  }
  MUSTFAIL(!r, "update_reachable");
  MUSTFAIL(r != 0, "refusal_reachable");
#else
  if (r) {
    CHECK(r == HDRSZ(number - max_opt, len) + len, "coap_add_option_internal returns the encoded size");
    CHECK(post.n == pre.n + 1 && post.o[NOPT].num == number && post.o[NOPT].len == len && (g >= len || pdu->token[post.o[NOPT].vpos + g] == val.b[g]), "coap_add_option_internal appends the option with the given number and value");
    CHECK((0 >= NOPT || SAME_OPT(pdu->token, post, 0, before, pre, 0, g)) && (1 >= NOPT || SAME_OPT(pdu->token, post, 1, before, pre, 1, g)) && (2 >= NOPT || SAME_OPT(pdu->token, post, 2, before, pre, 2, g)), "coap_add_option_internal leaves the earlier options unchanged");
  } else {
    CHECK(UNCHANGED_LIST(), "coap_add_option_internal: a refused option changes nothing");
  }
  MUSTFAIL(!r, "append_reachable");
  MUSTFAIL(r != 0, "refusal_reachable");
#endif
}
