/* units remove_option_b / insert_option_b / update_option_b / add_option_b  (bounded tier, -DWHICH=1..4)
 *
 * C04/C01: the in-place option editors against the abstract (token, ordered option list, payload) model.
 * The message buffer has a constant capacity; position, lengths, deltas (0..65535, so every 13/269 header
 * growth/shrink case), option numbers, payload presence and allocator behaviour are symbolic.
 * Pre:  the options region decodes (independent spec walk) to at most KMAX-1 options.
 * Post: the region decodes to exactly the model edit, token and payload bytes unchanged, PDU invariant holds.
 */
#include "coap3/coap_libcoap_build.h"
#include "spec/vin.h"
#ifndef CAP
#define CAP 32
#endif
#ifndef KMAX
#define KMAX 4
#endif
#define PDU_MAXA CAP
#define PDU_FIXED_BLOCK (CAP + 6)
#define ALLOC_CAP (CAP + 6)
#include "spec/c_option.h"
#include "spec/c_pdu.h"
#include "spec/optlist_model.h"
#include "src/coap_pdu.c"
#include "src/coap_option.c"
#include "stubs/alloc_bounded.h"
#include "stubs/mem_loops.h"

/* value bytes of option i in message a equal those of option j in message b (ghost index g) */
#define SAME_VALUE(a, ma, i, b, mb, j, g) \
  ((ma).o[i].len == (mb).o[j].len && ((g) >= (ma).o[i].len || (a)[(ma).o[i].vpos + (g)] == (b)[(mb).o[j].vpos + (g)]))
#define SAME_OPT(a, ma, i, b, mb, j, g) ((ma).o[i].num == (mb).o[j].num && SAME_VALUE(a, ma, i, b, mb, j, g))

void harness(void) {
  HARNESS_PDU(pdu);
  ASSUME(max_size != 0 && max_size <= CAP);          /* growth stays inside the bounded domain */
  ASSUME(tok_len <= 2);
  pdu->hdr_size = 0; pdu->session = NULL;
  IN_SCALAR(uint16_t, number);
  IN_SCALAR(size_t, len);
  IN_SCALAR(size_t, g);                               /* ghost byte index */
  ASSUME(len <= 3);
  IN_BYTES(val, 4);
  /* ---- precondition: well-formed option region, marker before payload, max_opt = last number */
  struct optlist_m pre;
  size_t opt_end = data_off ? data_off - 1 : used_size;
  ASSUME(spec_decode_options(pdu->token, pdu->e_token_length, opt_end, &pre));
  ASSUME(pre.n <= KMAX - 1 && pre.stop == opt_end);
  ASSUME(!data_off || pdu->token[opt_end] == 0xFF);
  ASSUME(max_opt == (pre.n ? pre.o[pre.n - 1].num : 0));
  /* snapshot of the message before the edit */
  uint8_t before[CAP];
  for (size_t i = 0; i < CAP; i++) before[i] = i < used_size ? pdu->token[i] : 0;
  size_t pay_len = data_off ? used_size - data_off : 0;
  G_old_doff = data_off;

  /* index of the first option with that number / first option with a larger number */
  int jeq = -1, jgt = -1;
  for (int i = KMAX - 1; i >= 0; i--) if (i < pre.n) { if (pre.o[i].num == number) jeq = i; if (pre.o[i].num > number) jgt = i; }

#if WHICH == 1
  int r = coap_remove_option(pdu, number);
#elif WHICH == 2
  ASSUME(number < max_opt);                           /* the real insertion path (otherwise it appends: WHICH 4) */
  size_t r = coap_insert_option(pdu, number, len, val.b);
#elif WHICH == 3
  ASSUME(jeq >= 0);                                   /* option present: update in place (absent = insert: WHICH 2) */
  size_t r = coap_update_option(pdu, number, len, val.b);
#else
  ASSUME(number >= max_opt && !data_off);             /* append path of coap_add_option_internal */
  ASSUME(!(COAP_PDU_IS_REQUEST(pdu) && (number == COAP_OPTION_PROXY_URI || number == COAP_OPTION_PROXY_SCHEME)));
  size_t r = coap_add_option_internal(pdu, number, len, val.b);
#endif

  /* ---- postcondition */
  struct optlist_m post;
  size_t doff2 = pdu->data ? (size_t)(pdu->data - pdu->token) : 0;
  size_t opt_end2 = doff2 ? doff2 - 1 : pdu->used_size;
  CHECK(pdu->used_size <= pdu->alloc_size && pdu->alloc_size <= pdu->max_size, "editor keeps used_size <= alloc_size <= max_size");
  /* canary: without a reallocation no byte beyond alloc_size may be written (blocks are over-sized in this tier) */
  CHECK(pdu->token != blk + max_hdr_size || g < alloc_size || g >= CAP || blk[max_hdr_size + g] == blk_in.b[max_hdr_size + g], "editor writes nothing beyond alloc_size");
  CHECK((doff2 == 0) == (data_off == 0) && (!doff2 || (doff2 > pdu->e_token_length && doff2 < pdu->used_size)), "editor keeps the payload pointer inside the message");
  CHECK(pdu->e_token_length == tok_len + BIAS(tok_len) && (g >= pdu->e_token_length || pdu->token[g] == before[g]), "editor leaves the token untouched");
  CHECK(!doff2 || (pdu->token[doff2 - 1] == 0xFF && pdu->used_size - doff2 == pay_len && (g >= pay_len || pdu->token[doff2 + g] == before[data_off + g])), "editor leaves payload marker and payload bytes unchanged");
  int ok = spec_decode_options(pdu->token, pdu->e_token_length, opt_end2, &post);
  CHECK(ok && post.stop == opt_end2, "after the edit the options region is again a sequence of well-formed options ending at the marker/end");
  ASSUME(ok);
  CHECK(pdu->max_opt == (post.n ? post.o[post.n - 1].num : 0), "max_opt is the number of the last option");
#define UNCHANGED_LIST() (post.n == pre.n && \
      (0 >= pre.n || SAME_OPT(pdu->token, post, 0, before, pre, 0, g)) && (1 >= pre.n || SAME_OPT(pdu->token, post, 1, before, pre, 1, g)) && \
      (2 >= pre.n || SAME_OPT(pdu->token, post, 2, before, pre, 2, g)))
#if WHICH == 1
  CHECK(r == (jeq >= 0), "coap_remove_option succeeds iff an option with that number exists");
  if (r) {
    CHECK(post.n == pre.n - 1, "coap_remove_option removes exactly one option");
    for (int i = 0; i < KMAX - 1; i++) if (i < post.n) {
      int src = i < jeq ? i : i + 1;
      CHECK(SAME_OPT(pdu->token, post, i, before, pre, src, g), "coap_remove_option: every other option keeps number, value and relative position");
    }
  } else {
    CHECK(UNCHANGED_LIST(), "coap_remove_option: nothing changes when the option is absent");
  }
  MUSTFAIL(!(r && jeq == 0 && pre.n == 3 && data_off), "remove_first_of_three_with_payload_reachable");
  MUSTFAIL(!(r && pre.n >= 2 && jeq == 0 && pre.o[1].num - pre.o[0].num < 13 && pre.o[1].num >= 269), "delta_grows_by_two_reachable");
#elif WHICH == 2
  if (r) {
    CHECK(r == HDRSZ(number - (jgt > 0 ? pre.o[jgt - 1].num : 0), len) + len, "coap_insert_option returns the encoded size of the new option");
    CHECK(post.n == pre.n + 1, "coap_insert_option adds exactly one option");
    for (int i = 0; i < KMAX; i++) if (i < post.n) {
      if (i < jgt) CHECK(SAME_OPT(pdu->token, post, i, before, pre, i, g), "coap_insert_option: options before the insertion point unchanged");
      else if (i == jgt) CHECK(post.o[i].num == number && post.o[i].len == len && (g >= len || pdu->token[post.o[i].vpos + g] == val.b[g]), "coap_insert_option: the new option sits before the first larger number with the given value");
      else CHECK(SAME_OPT(pdu->token, post, i, before, pre, i - 1, g), "coap_insert_option: options after the insertion point keep number and value");
    }
  } else {
    CHECK(UNCHANGED_LIST(), "coap_insert_option: a refused insertion changes nothing");
  }
  MUSTFAIL(!(r && jgt == 0 && pre.o[0].num >= 269 && pre.o[0].num - number < 13), "follower_shrinks_by_two_reachable");
  MUSTFAIL(r != 0, "refusal_reachable");
#elif WHICH == 3
  if (r) {
    CHECK(post.n == pre.n, "coap_update_option keeps the number of options");
    for (int i = 0; i < KMAX - 1; i++) if (i < post.n) {
      if (i == jeq) CHECK(post.o[i].num == number && post.o[i].len == len && (g >= len || pdu->token[post.o[i].vpos + g] == val.b[g]), "coap_update_option: the named option has the new value");
      else CHECK(SAME_OPT(pdu->token, post, i, before, pre, i, g), "coap_update_option: every other option keeps number, value and position");
    }
  } else {
    CHECK(UNCHANGED_LIST(), "coap_update_option: a refused update changes nothing");
  }
  MUSTFAIL(!(r && pre.n == 3 && jeq == 1 && data_off && len == 3 && pre.o[1].len == 0), "grow_middle_with_payload_reachable");
  MUSTFAIL(r != 0, "refusal_reachable");
#else
  if (r) {
    CHECK(r == HDRSZ(number - max_opt, len) + len, "coap_add_option_internal returns the encoded size");
    CHECK(post.n == pre.n + 1 && post.o[pre.n].num == number && post.o[pre.n].len == len && (g >= len || pdu->token[post.o[pre.n].vpos + g] == val.b[g]), "coap_add_option_internal appends the option with the given number and value");
    CHECK((0 >= pre.n || SAME_OPT(pdu->token, post, 0, before, pre, 0, g)) && (1 >= pre.n || SAME_OPT(pdu->token, post, 1, before, pre, 1, g)) && (2 >= pre.n || SAME_OPT(pdu->token, post, 2, before, pre, 2, g)), "coap_add_option_internal leaves the earlier options unchanged");
  } else {
    CHECK(UNCHANGED_LIST(), "coap_add_option_internal: a refused option changes nothing");
  }
  MUSTFAIL(!(r && pre.n == 3), "append_fourth_reachable");
  MUSTFAIL(r != 0, "refusal_reachable");
#endif
}
