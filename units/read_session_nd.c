/* unit read_session_b2: the TCP/TLS stream reader of coap_read_session (C05) as an inductive step over arbitrary reads - plain cbmc
 * on harness pre/postconditions (no --dfcc), static harness objects.
 * COAP_RXBUFFER_SIZE (an #ifndef-guarded configuration macro) is set to RXSZ for this unit: every inner iteration consumes at least
 * one byte, so unwinding the inner loop RXSZ+1 times is exhaustive for that read size, while the session state at entry is
 * ARBITRARY under the reader's state invariant - the postcondition re-establishes the invariant, so the step composes over any
 * number of reads and every cut position inside the longest header (6 + 2 bytes) is covered.
 * Ghost byte accounting: G_in = bytes delivered by the transport, G_done = sizes of the messages completed. */
#ifndef RXSZ
#define RXSZ 3
#endif
#define COAP_RXBUFFER_SIZE RXSZ
#ifndef RCVMAX
#define RCVMAX 40   /* largest message the session accepts in this unit (larger declarations must disconnect or be refused) */
#endif
#include "coap3/coap_libcoap_build.h"
#include "spec/vin.h"
#include "spec/tcp_len.h"
size_t G_in, G_done; int G_reads, G_completed, G_disc, G_err, G_read_after_err, G_alloc_fail_seen;
#include "src/coap_net.c"
#define coap_pdu_parse_header real_coap_pdu_parse_header
#define coap_pdu_parse_opt real_coap_pdu_parse_opt
#define coap_pdu_parse_header_size real_coap_pdu_parse_header_size
#define coap_pdu_parse_size real_coap_pdu_parse_size
#include "src/coap_pdu.c"
#undef coap_pdu_parse_header
#undef coap_pdu_parse_opt
#undef coap_pdu_parse_header_size
#undef coap_pdu_parse_size
#include "src/coap_encode.c"
#define ALLOC_CAP 176            /* every block is a constant-size object: sizeof(coap_pdu_t) and header + RCVMAX fit */
#define VH_REALLOC_NO_COPY
#define VH_ALLOC_FAIL_HOOK() (G_alloc_fail_seen = 1)
#include "stubs/alloc_bounded.h"
#include "stubs/time_prng.h"
#define MEMCAP ALLOC_CAP
#define MEMCPYCAP 8              /* chunks of <= RXSZ bytes and headers of <= 8 bytes are copied */
#include "stubs/mem_havoc_fixed.h"
/* a completed message is handed to the header parser: count its bytes (the real parser has its own units) */
_Bool nondet_parse_ok(void);
int coap_pdu_parse_header(coap_pdu_t *pdu, coap_proto_t proto) { (void)proto; G_completed++; G_done += (size_t)pdu->hdr_size + pdu->used_size; return nondet_parse_ok(); }
int coap_pdu_parse_opt(coap_pdu_t *pdu) { (void)pdu; return nondet_parse_ok(); }
/* the real framing functions (units parse_header_size / parse_size), wrapped to note when the stream is found broken */
size_t coap_pdu_parse_header_size(coap_proto_t proto, const uint8_t *data) { size_t r = real_coap_pdu_parse_header_size(proto, data); if (!r) G_err = 1; return r; }
size_t coap_pdu_parse_size(coap_proto_t proto, const uint8_t *data, size_t length) { size_t r = real_coap_pdu_parse_size(proto, data, length); if (r > COAP_DEFAULT_MAX_PDU_RX_SIZE) G_err = 1; return r; }
ssize_t nondet_nread(void); size_t nondet_rcvsize(void); uint8_t nondet_rxbyte(void);
static ssize_t vh_read(coap_session_t *session, uint8_t *data, size_t len) {
  (void)session;
  __CPROVER_assert(__CPROVER_w_ok(data, len), "the read buffer given to the transport is writable for its length");
  if (G_err || G_alloc_fail_seen) G_read_after_err = 1;
  ssize_t n = nondet_nread();
  __CPROVER_assume(n >= -1 && n <= (ssize_t)len);
  if (G_reads >= 1) __CPROVER_assume(n < (ssize_t)len);            /* the second read of the retry loop is a short one */
  G_reads++;
  if (n > 0) { for (size_t i = 0; i < RXSZ; i++) if (i < (size_t)n) data[i] = nondet_rxbyte(); G_in += (size_t)n; }
  return n;
}
void coap_session_disconnected_lkd(coap_session_t *s, coap_nack_reason_t r) { (void)s; (void)r; G_disc++; }
size_t coap_session_max_pdu_rcv_size(const coap_session_t *s) { (void)s; size_t v = nondet_rcvsize(); __CPROVER_assume(v >= 16 && v <= RCVMAX); return v; }
const char *coap_session_str(const coap_session_t *s) { (void)s; return "s"; }
#define TOKX(b0) TKL_EXT(TKL_NIB(&(b0)))
void harness(void) {
  static coap_context_t ctx_o; static coap_session_t session_o; coap_context_t *ctx = &ctx_o; coap_session_t *session = &session_o;
  IN_SCALAR(uint8_t, state_kind);            /* 0: between messages, 1: inside a header, 2: inside a body */
  IN_SCALAR(size_t, pr); IN_SCALAR(uint8_t, rh0); IN_SCALAR(size_t, used); IN_SCALAR(size_t, alloc); IN_SCALAR(uint8_t, h);
  ASSUME(state_kind <= 2);
#ifdef KIND
  state_kind = KIND;
#endif
  session->proto = COAP_PROTO_TCP; session->context = ctx;
  coap_layer_read_t keep = vh_read; (void)keep;
  session->sock.lfunc[COAP_LAYER_SESSION].l_read = vh_read; session->sock.flags = COAP_SOCKET_CONNECTED;
  session->read_header[0] = rh0;
  size_t hdr0 = TCP_HDRSZ(&rh0) + TOKX(rh0);
  coap_pdu_t *pp = NULL;
  if (state_kind == 0) { pr = 0; session->partial_pdu = NULL; }
  else if (state_kind == 1) { ASSUME(pr >= 1 && pr < hdr0); session->partial_pdu = NULL; }
  else {
    ASSUME((h == 2 || h == 3 || h == 4 || h == 6) && used >= 1 && used <= alloc && alloc <= RCVMAX && pr >= h && pr < h + used);
    pp = malloc(sizeof(*pp)); uint8_t *blk = malloc(ALLOC_CAP); ASSUME(pp && blk);
    pp->max_hdr_size = 6; pp->hdr_size = h; pp->token = blk + 6; pp->alloc_size = alloc; pp->used_size = used; pp->max_size = 0; pp->data = NULL; pp->actual_token.length = 0; pp->e_token_length = 0;
    session->partial_pdu = pp;
  }
  session->partial_read = pr;
  G_in = G_done = 0; G_reads = G_completed = G_disc = G_err = G_read_after_err = G_alloc_fail_seen = 0;
  coap_tick_t now = 0;
  coap_read_session(ctx, session, now);
  /* ---- postcondition */
  CHECK(G_disc <= 1, "at most one disconnect");
  CHECK(G_disc || G_in + pr == G_done + session->partial_read, "byte accounting: bytes received + bytes buffered before = bytes of completed messages + bytes buffered now (nothing forgotten, nothing counted twice, wherever the read was cut)");
  CHECK(G_disc || session->partial_pdu == NULL || (session->partial_read >= session->partial_pdu->hdr_size && session->partial_read < (size_t)session->partial_pdu->hdr_size + session->partial_pdu->used_size && session->partial_pdu->used_size <= session->partial_pdu->alloc_size && session->partial_pdu->used_size <= COAP_DEFAULT_MAX_PDU_RX_SIZE), "reader invariant (inside a body): the buffered count lies inside the announced message, which fits its buffer and the configured maximum");
  CHECK(G_disc || session->partial_pdu != NULL || session->partial_read == 0 || session->partial_read < TCP_HDRSZ(session->read_header) + TKL_EXT(TKL_NIB(session->read_header)), "reader invariant (inside a header): fewer bytes buffered than the header announces");
  CHECK(!G_err || G_disc == 1, "a stream found broken (reserved length nibble, announced size above the maximum) ends in a disconnect");
  CHECK(!G_read_after_err, "nothing more is read from a stream that was found broken or whose message could not be buffered");
  MUSTFAIL(!(G_completed == 2), "two_messages_in_one_read_reachable"); MUSTFAIL(!(state_kind == 1 && !G_disc && session->partial_pdu == NULL && session->partial_read > pr), "short_read_inside_header_reachable");
  MUSTFAIL(!G_disc, "disconnect_reachable"); MUSTFAIL(!(state_kind == 1 && session->partial_pdu != NULL), "header_completed_reachable");
}
