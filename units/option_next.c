/* unit option_next: one step of the (unfiltered) option iterator over a suffix object
 * [next_option, next_option+length) (C02, C03 reporting, C04 precondition carrier). */
#include "coap3/coap_libcoap_build.h"
#include "spec/vin.h"
#include "spec/c_option.h"
#include "src/coap_option.c"
#include "stubs/base.h"
#include "stubs/mem_havoc.h"
#ifndef CAPW
#define CAPW 24
#endif
void harness(void) {
  IN_SCALAR(size_t, n);
  IN_SCALAR(uint16_t, number);
  IN_SCALAR(_Bool, bad);
  IN_SCALAR(_Bool, nullopt);
  IN_BUF(buf, n, CAPW);
  coap_opt_iterator_t oi;
  oi.length = n; oi.number = number; oi.bad = bad; oi.filtered = 0;
  oi.next_option = nullopt ? NULL : buf;
  coap_opt_t *old_next = oi.next_option;
  coap_opt_t *r = coap_option_next(&oi);
  CHECK(POST_NEXT_NULL(r, &oi), "coap_option_next returns NULL only with the iterator marked bad");
  CHECK(POST_NEXT_STEP(r, &oi, old_next, n, number), "coap_option_next returns the current well-formed option and advances by exactly its encoded size");
  CHECK(POST_NEXT_END(r, &oi, old_next, n, bad), "coap_option_next stops only at end, payload marker or a malformed option");
  MUSTFAIL(r == NULL, "accept_reachable");
  MUSTFAIL(r != NULL, "reject_reachable");
}
