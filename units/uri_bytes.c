/* units uri_path_byte / uri_query_byte / uri_hexchar / uri_dots / uri_check_segment / uri_replace_percents (-DWHICH): C16 */
#include "coap3/coap_libcoap_build.h"
#include "spec/vin.h"
#include "stubs/ctype_table.h"
#include "src/coap_uri.c"
#include "stubs/base.h"
#include "stubs/mem_havoc.h"
/* RFC 3986: pchar = unreserved / pct-encoded / sub-delims / ":" / "@" */
#define IS_ALPHA_(c) (((c) >= 'A' && (c) <= 'Z') || ((c) >= 'a' && (c) <= 'z'))
#define IS_DIGIT_(c) ((c) >= '0' && (c) <= '9')
#define IS_UNRESERVED(c) (IS_ALPHA_(c) || IS_DIGIT_(c) || (c) == '-' || (c) == '.' || (c) == '_' || (c) == '~')
#define IS_SUBDELIM(c) ((c) == '!' || (c) == '$' || (c) == '&' || (c) == '\'' || (c) == '(' || (c) == ')' || (c) == '*' || (c) == '+' || (c) == ',' || (c) == ';' || (c) == '=')
#define IS_PCHAR_NOPCT(c) (IS_UNRESERVED(c) || IS_SUBDELIM(c) || (c) == ':' || (c) == '@')
#define IS_HEX_(c) (IS_DIGIT_(c) || ((c) >= 'a' && (c) <= 'f') || ((c) >= 'A' && (c) <= 'F'))
#define HEXVAL_(c) (IS_DIGIT_(c) ? (c) - '0' : (c) >= 'a' ? (c) - 'a' + 10 : (c) - 'A' + 10)
void harness(void) {
#if WHICH == 1
  IN_SCALAR(uint8_t, c);
  int r = is_unescaped_in_path(c);
  CHECK(!r || (c != '/' && c != '%'), "a byte written unescaped into the reconstructed path is never the separator '/' or the escape '%' (injectivity)");
  CHECK(!r || IS_PCHAR_NOPCT(c), "only RFC 3986 pchar characters are written unescaped into the path");
  CHECK(r || !IS_UNRESERVED(c), "RFC 3986 unreserved characters are not percent-escaped in the path");
  MUSTFAIL(!r, "unescaped_reachable"); MUSTFAIL(r, "escaped_reachable");
#elif WHICH == 2
  IN_SCALAR(uint8_t, c);
  int r = is_unescaped_in_query(c);
  CHECK(!r || (c != '&' && c != '%'), "a byte written unescaped into the reconstructed query is never the separator '&' or the escape '%' (injectivity)");
  CHECK(!r || IS_PCHAR_NOPCT(c) || c == '/' || c == '?', "only RFC 3986 query characters are written unescaped into the query");
  CHECK(r || !IS_UNRESERVED(c), "RFC 3986 unreserved characters are not percent-escaped in the query");
  MUSTFAIL(!r, "unescaped_reachable"); MUSTFAIL(r, "escaped_reachable");
#elif WHICH == 3
  IN_SCALAR(uint8_t, c);
  ASSUME(IS_HEX_(c));
  CHECK(hexchar_to_dec(c) == HEXVAL_(c), "hexchar_to_dec gives the value of each of the 22 hex digit characters");
  MUSTFAIL(c != 'F', "F_reachable");
#elif WHICH == 4
  IN_SCALAR(size_t, n);
  IN_BUF(s, n, 8);
  int r = dots(s, n);
  /* '.' written literally or as %2e / %2E, in any combination */
  int d1 = (n == 1 && s[0] == '.') || (n == 3 && s[0] == '%' && s[1] == '2' && (s[2] == 'e' || s[2] == 'E'));
  int first1 = n >= 1 && s[0] == '.', first3 = n >= 3 && s[0] == '%' && s[1] == '2' && (s[2] == 'e' || s[2] == 'E');
  size_t o = first1 ? 1 : first3 ? 3 : 0;
  int d2 = o && ((n == o + 1 && s[o] == '.') || (n == o + 3 && s[o] == '%' && s[o + 1] == '2' && (s[o + 2] == 'e' || s[o + 2] == 'E')));
  CHECK(r == (d1 ? 1 : d2 ? 2 : 0), "dots() recognises exactly the segments '.' and '..' written literally or percent-encoded");
  MUSTFAIL(r != 2, "dotdot_reachable"); MUSTFAIL(r != 1, "dot_reachable");
#elif WHICH == 5
  IN_SCALAR(size_t, n);
  ASSUME(n <= 100000);
  IN_BUF(s, n, 12);
  size_t seg = 0;
  int r = check_segment(s, n, &seg);
  CHECK(r == 0 || r == -1, "check_segment returns 0 or -1");
  CHECK(r != 0 || seg <= n, "check_segment: the decoded size never exceeds the encoded size");
  MUSTFAIL(r != 0, "accept_reachable"); MUSTFAIL(r == 0, "reject_reachable");
#elif WHICH == 6
  IN_SCALAR(size_t, n);
  ASSUME(n <= 100000);
  IN_BUF(d, n, 12);
  coap_optlist_t ol; ol.next = NULL; ol.number = 11; ol.length = n; ol.data = d;
  coap_replace_percents(&ol);
  CHECK(ol.length <= n, "coap_replace_percents never grows the value");
  MUSTFAIL(ol.length == n, "shrink_reachable");
#endif
}
