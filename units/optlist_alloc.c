/* unit alloc_path_optlist_b: coap_path_into_optlist / coap_query_into_optlist under allocation failure (C18; replaces the units
 * alloc_optlist*, which ran out of memory with --dfcc): every coap_new_optlist may fail independently; no NULL result is ever
 * dereferenced (coap_replace_percents, coap_insert_optlist), failure is reported by 0, success by 1 with every node carrying the
 * option number asked for.  Plain cbmc (no --dfcc); paths of at most PMAX bytes; coap_new_optlist, coap_insert_optlist,
 * coap_replace_percents, dots, backup_optlist are the real bodies. */
#include "coap3/coap_libcoap_build.h"
#include "spec/vin.h"
#include "stubs/ctype_table.h"
#include "src/coap_option.c"
#include "src/coap_encode.c"
#include "src/coap_uri.c"
int G_alloc_fail_seen;
#define ALLOC_CAP 64
#define VH_ALLOC_FAIL_HOOK() (G_alloc_fail_seen = 1)
#include "stubs/alloc_bounded.h"
#include "stubs/mem_loops.h"
#ifndef PMAX
#define PMAX 6
#endif
void harness(void) {
  IN_SCALAR(size_t, n); IN_SCALAR(_Bool, query); IN_SCALAR(uint16_t, optnum);
  ASSUME(n <= PMAX);
  IN_BUF_FIXED(path, PMAX);
  coap_optlist_t *chain = NULL;
  G_alloc_fail_seen = 0;
  int r = query ? coap_query_into_optlist(path, n, optnum, &chain) : coap_path_into_optlist(path, n, optnum, &chain);
  CHECK(r == 0 || r == 1, "returns 0 or 1");
  CHECK(r == 1 || G_alloc_fail_seen, "the conversion only fails when an allocation failed");
  int cnt = 0; coap_optlist_t *q = chain;
  for (int k = 0; k <= PMAX + 1; k++) if (q) { CHECK(q->number == optnum && q->length <= n, "every node of the resulting list carries the option number asked for and at most the bytes of its segment"); cnt++; q = q->next; }
  CHECK(q == NULL && cnt <= PMAX + 1, "the list is finite: at most one option per segment");
  MUSTFAIL(!(r == 1 && cnt == 3), "three_segments_reachable"); MUSTFAIL(!(r == 0 && cnt >= 1), "failure_after_first_segment_reachable");
}
