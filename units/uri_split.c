/* unit uri_split_b (bounded tier): coap_split_uri on every byte string of length <= NMAX in an exact-size buffer (C16):
 * components lie inside the input, explicit ports are the decimal value and <= 65535 (else rejected), default
 * ports per scheme, malformed classes rejected; no read outside the buffer. */
#include "coap3/coap_libcoap_build.h"
#include "spec/vin.h"
#include "stubs/ctype_table.h"
#include "src/coap_uri.c"
#include "stubs/base.h"
#include "stubs/mem_loops.h"
#ifndef NMAX
#define NMAX 24
#endif
int coap_dtls_is_supported(void) { return 1; }
int coap_tcp_is_supported(void) { return 1; }
int coap_tls_is_supported(void) { return 1; }
int coap_ws_is_supported(void) { return 1; }
int coap_wss_is_supported(void) { return 1; }
static uint16_t spec_default_port(int scheme) {
  return scheme == COAP_URI_SCHEME_COAP || scheme == COAP_URI_SCHEME_COAP_TCP ? 5683 :
         scheme == COAP_URI_SCHEME_COAPS || scheme == COAP_URI_SCHEME_COAPS_TCP ? 5684 :
         scheme == COAP_URI_SCHEME_HTTP || scheme == COAP_URI_SCHEME_COAP_WS ? 80 : 443;
}
#define INSIDE(str, sub, base, n) ((sub).length == 0 || ((sub).s >= (base) && (sub).s + (sub).length <= (base) + (n)))
void harness(void) {
  IN_SCALAR(size_t, n);
  ASSUME(n >= 1 && n <= NMAX);
  IN_BUF(str, n, NMAX);
  coap_uri_t uri;
  int r = coap_split_uri(str, n, &uri);
  /* ---- independent scan of authority: scheme "://" host [":" digits] */
  size_t sp = NMAX + 1;                                  /* index of "://" */
  for (size_t i = NMAX; i-- > 0;) if (i + 2 < n && str[i] == ':' && str[i + 1] == '/' && str[i + 2] == '/') sp = i;
  int has_auth = str[0] != '/' && sp <= NMAX;
  size_t hs = sp + 3, he = hs;
  int v6 = has_auth && hs < n && str[hs] == '[';
  int unixd = has_auth && !v6 && hs + 2 < n && str[hs] == '%' && str[hs + 1] == '2' && (str[hs + 2] == 'F' || str[hs + 2] == 'f');
  if (has_auth && !v6) { he = n; for (size_t i = NMAX; i-- > 0;) if (i >= hs && i < n && (str[i] == ':' || str[i] == '/' || str[i] == '?')) he = i; }
  int colon = has_auth && !v6 && he < n && str[he] == ':';
  uint64_t val = 0; size_t nd = 0; int indig = 1;
  for (size_t i = 0; i < NMAX; i++) if (colon && he + 1 + i < n && indig) { uint8_t c = str[he + 1 + i]; if (c >= '0' && c <= '9') { val = val * 10 + (c - '0'); nd++; } else indig = 0; }
  CHECK(r <= 0, "coap_split_uri returns 0 or a negative error");
  CHECK(r != 0 || (INSIDE(str, uri.host, str, n) && INSIDE(str, uri.path, str, n) && INSIDE(str, uri.query, str, n)), "every component reported by coap_split_uri lies inside the length-delimited input");
  CHECK(r != 0 || !has_auth || v6 || (uri.host.s == str + hs && uri.host.length == he - hs && he > hs), "host is exactly the text between '://' and the first ':', '/' or '?'");
  CHECK(r != 0 || !has_auth || v6 || !colon || nd == 0 || (val <= 65535 && uri.port == val), "an explicit port is reported as its decimal value and is at most 65535");
  CHECK(!(has_auth && !v6 && colon && nd > 0 && val > 65535) || r != 0 || unixd, "a port number above 65535 is rejected");
  CHECK(r != 0 || !has_auth || v6 || unixd || (colon && nd > 0) || uri.port == spec_default_port(uri.scheme), "without an explicit port the default port of the scheme is reported");
  CHECK(has_auth || str[0] == '/' || r != 0, "a URI without '://' and without a leading '/' is rejected");
  CHECK(!(has_auth && !v6 && he == hs) || r != 0, "an empty host is rejected");
  MUSTFAIL(!(r == 0 && colon && nd == 5), "five_digit_port_accept_reachable");
  MUSTFAIL(!(r != 0 && colon && nd > 10), "long_port_reject_reachable");
  MUSTFAIL(!(r == 0 && uri.query.length && uri.path.length), "path_and_query_reachable");
  MUSTFAIL(!(r == 0 && v6), "ipv6_reachable");
}
