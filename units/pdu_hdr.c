/* units parse_header_size / parse_size / encode_header / parse_header / hdr_roundtrip (selected by -DWHICH):
 * message header framing for every transport against RFC 7252 3, RFC 8323 3.2/4, RFC 8974 2.1 (C01 P2, C03 P3/P5, C05) */
#include "coap3/coap_libcoap_build.h"
#include "spec/vin.h"
#include "spec/c_pdu.h"
#include "src/coap_pdu.c"
#include "src/coap_encode.c"
#include "stubs/base.h"
#include "stubs/mem_havoc.h"
void harness(void) {
#if WHICH == 1
  IN_SCALAR(uint8_t, proto);
  IN_SCALAR(size_t, n);
  ASSUME(n >= 1);
  IN_BUF(d, n, 8);
  size_t r = coap_pdu_parse_header_size((coap_proto_t)proto, d);
  CHECK(r == PROTO_HDRSZ(proto, d), "coap_pdu_parse_header_size equals the RFC header size of the transport");
  MUSTFAIL(r != 6, "six_reachable");
#elif WHICH == 2
  IN_SCALAR(uint8_t, proto);
  IN_SCALAR(size_t, n);
  ASSUME(IS_TCPTLS(proto) || IS_WS(proto));
  ASSUME(n >= 1);
  IN_BUF(d, n, 8);
  ASSUME(n >= PROTO_HDRSZ(proto, d) + TKL_EXT(TKL_NIB(d)));
  size_t r = coap_pdu_parse_size((coap_proto_t)proto, d, n);
  CHECK(POST_PARSE_SIZE(r, proto, d), "coap_pdu_parse_size equals RFC 8323 Length plus the (extended) token size");
  MUSTFAIL(r != 65805u + 0xFFFFFFFFu + 65804u + 2u, "max_reachable");
#elif WHICH == 3
  HARNESS_PDU(pdu);
  ASSUME(max_hdr_size == 6);
  IN_SCALAR(uint8_t, proto);
  size_t r = coap_pdu_encode_header(pdu, (coap_proto_t)proto);
  CHECK(POST_ENC_HDR(r, pdu, proto, ptype, hdr_size), "coap_pdu_encode_header writes the RFC header of the transport (all four TCP length forms)");
  MUSTFAIL(r != 6, "six_reachable");
  MUSTFAIL(r != 2, "two_reachable");
  MUSTFAIL(r != 3, "three_reachable");
#elif WHICH == 4
  HARNESS_PDU(pdu);
  IN_SCALAR(uint8_t, proto);
  pdu->e_token_length = 0; pdu->actual_token.length = 0;   /* a PDU about to be parsed: token fields not yet set */
  ASSUME(hdr_size >= 2 && (hdr_size == PROTO_HDRSZ(proto, HDRP(pdu)) || !(IS_DGRAM(proto) || IS_TCPTLS(proto) || IS_WS(proto))));
  ASSUME(TKL_EXT(TKL_NIB(HDRP(pdu))) <= used_size);
  int r = coap_pdu_parse_header(pdu, (coap_proto_t)proto);
  CHECK(POST_PARSE_HDR_ACCEPT(r, pdu, proto), "coap_pdu_parse_header accepts iff version is 1 (UDP), TKL is not 15 and the token fits");
  CHECK(POST_PARSE_HDR_FIELDS(r, pdu, proto), "coap_pdu_parse_header reports type, code, mid and the (extended) token as on the wire");
  MUSTFAIL(r != 1, "accept_reachable");
  MUSTFAIL(r != 0, "reject_reachable");
  MUSTFAIL(!(r == 1 && pdu->actual_token.length > 300), "long_token_reachable");
#elif WHICH == 5
  /* lemma over the real functions: what coap_pdu_encode_header writes, the three header parsers read back */
  HARNESS_PDU(pdu);
  ASSUME(max_hdr_size == 6);
  IN_SCALAR(uint8_t, proto);
  ASSUME(IS_DGRAM(proto) || IS_TCPTLS(proto) || IS_WS(proto));
  /* the RFC 8974 extension bytes in front of the token are those coap_add_token / coap_update_token wrote (their contracts) */
  ASSUME(tok_len < 13 || (tok_len < 269 ? pdu->token[0] == tok_len - 13 : (pdu->token[0] == ((tok_len - 269) >> 8) && pdu->token[1] == ((tok_len - 269) & 0xff))));
  size_t h = coap_pdu_encode_header(pdu, (coap_proto_t)proto);
  CHECK(h >= 2 && h <= 6 && h == pdu->hdr_size, "a header was encoded");
  const uint8_t *hdr = pdu->token - h;
  CHECK(coap_pdu_parse_header_size((coap_proto_t)proto, hdr) == h, "round trip: the parser derives the same header size from the first byte");
  CHECK(!IS_TCPTLS(proto) || coap_pdu_parse_size((coap_proto_t)proto, hdr, h + BIAS(tok_len)) == used_size, "round trip (TCP/TLS): the announced size is token + options + payload, for all four length forms");
  uint8_t etype = (uint8_t)pdu->type; uint16_t emid = (uint16_t)pdu->mid; uint8_t ecode = pdu->code;
  pdu->e_token_length = 0; pdu->actual_token.length = 0; pdu->type = 0; pdu->code = 0; pdu->mid = 0;
  int r = coap_pdu_parse_header(pdu, (coap_proto_t)proto);
  CHECK(r == 1, "round trip: the encoded header is accepted");
  CHECK(pdu->code == ecode && pdu->e_token_length == tok_len + BIAS(tok_len) && pdu->actual_token.length == tok_len && pdu->actual_token.s == pdu->token + BIAS(tok_len), "round trip: code and (extended) token length are read back");
  CHECK(!IS_DGRAM(proto) || (pdu->type == etype && pdu->mid == emid), "round trip (UDP/DTLS): type and message id are read back");
  MUSTFAIL(!(h == 6), "tcp32_reachable"); MUSTFAIL(!(tok_len > 300 && IS_WS(proto)), "ws_long_token_reachable");
#endif
}
