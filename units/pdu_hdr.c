/* units parse_header_size / parse_size / encode_header / parse_header / hdr_roundtrip (selected by -DWHICH):
 * message header framing for every transport against RFC 7252 3, RFC 8323 3.2/4, RFC 8974 2.1 (C01 P2, C03 P3/P5, C05) */
#include "coap3/coap_libcoap_build.h"
#include "spec/vin.h"
#include "spec/c_pdu.h"
#include "src/coap_pdu.c"
#include "src/coap_encode.c"
#include "stubs/base.h"
#include "stubs/mem_havoc.h"
void harness(void) {
#if WHICH == 1
  IN_SCALAR(uint8_t, proto);
  IN_SCALAR(size_t, n);
  ASSUME(n >= 1);
  IN_BUF(d, n, 8);
  size_t r = coap_pdu_parse_header_size((coap_proto_t)proto, d);
  CHECK(r == PROTO_HDRSZ(proto, d), "coap_pdu_parse_header_size equals the RFC header size of the transport");
  MUSTFAIL(r != 6, "six_reachable");
#elif WHICH == 2
  IN_SCALAR(uint8_t, proto);
  IN_SCALAR(size_t, n);
  ASSUME(IS_TCPTLS(proto) || IS_WS(proto));
  ASSUME(n >= 1);
  IN_BUF(d, n, 8);
  ASSUME(n >= PROTO_HDRSZ(proto, d) + TKL_EXT(TKL_NIB(d)));
  size_t r = coap_pdu_parse_size((coap_proto_t)proto, d, n);
  CHECK(POST_PARSE_SIZE(r, proto, d), "coap_pdu_parse_size equals RFC 8323 Length plus the (extended) token size");
  MUSTFAIL(r != 65805u + 0xFFFFFFFFu + 65804u + 2u, "max_reachable");
#elif WHICH == 3
  HARNESS_PDU(pdu);
  ASSUME(max_hdr_size == 6);
  IN_SCALAR(uint8_t, proto);
  size_t r = coap_pdu_encode_header(pdu, (coap_proto_t)proto);
  CHECK(POST_ENC_HDR(r, pdu, proto, ptype, hdr_size), "coap_pdu_encode_header writes the RFC header of the transport (all four TCP length forms)");
  MUSTFAIL(r != 6, "six_reachable");
  MUSTFAIL(r != 2, "two_reachable");
  MUSTFAIL(r != 3, "three_reachable");
#elif WHICH == 4
  HARNESS_PDU(pdu);
  IN_SCALAR(uint8_t, proto);
  pdu->e_token_length = 0; pdu->actual_token.length = 0;   /* a PDU about to be parsed: token fields not yet set */
  ASSUME(hdr_size >= 2 && (hdr_size == PROTO_HDRSZ(proto, HDRP(pdu)) || !(IS_DGRAM(proto) || IS_TCPTLS(proto) || IS_WS(proto))));
  ASSUME(TKL_EXT(TKL_NIB(HDRP(pdu))) <= used_size);
  int r = coap_pdu_parse_header(pdu, (coap_proto_t)proto);
  CHECK(POST_PARSE_HDR_ACCEPT(r, pdu, proto), "coap_pdu_parse_header accepts iff version is 1 (UDP), TKL is not 15 and the token fits");
  CHECK(POST_PARSE_HDR_FIELDS(r, pdu, proto), "coap_pdu_parse_header reports type, code, mid and the (extended) token as on the wire");
  MUSTFAIL(r != 1, "accept_reachable");
  MUSTFAIL(r != 0, "reject_reachable");
  MUSTFAIL(!(r == 1 && pdu->actual_token.length > 300), "long_token_reachable");
#endif
}
