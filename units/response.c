/* unit handle_response: the per-datagram conclusion of a response at the client (C07): duplicate filter, ACK/RST,
 * exactly one handler call, stopping the request's retransmission */
#include "coap3/coap_libcoap_build.h"
#include "spec/vin.h"
#include "spec/lock_ghost.h"
int G_cancel, G_ack, G_rst, G_handler, G_handler_mid, G_handler_verdict, G_sendblk, G_getblk, G_sendblk_res, G_getblk_res;
void coap_cancel_all_messages_contract(coap_context_t *context, coap_session_t *session, coap_bin_const_t *token)
__CPROVER_requires(1) __CPROVER_assigns(G_cancel) __CPROVER_ensures(G_cancel == __CPROVER_old(G_cancel) + 1);
coap_mid_t coap_send_ack_lkd_contract(coap_session_t *session, const coap_pdu_t *request)
__CPROVER_requires(1) __CPROVER_assigns(G_ack) __CPROVER_ensures(G_ack == __CPROVER_old(G_ack) + 1);
coap_mid_t coap_send_rst_lkd_contract(coap_session_t *session, const coap_pdu_t *request)
__CPROVER_requires(1) __CPROVER_assigns(G_rst) __CPROVER_ensures(G_rst == __CPROVER_old(G_rst) + 1);
#include "src/coap_net.c"
#include "src/coap_threadsafe.c"
#include "stubs/base.h"
#include "stubs/time_prng.h"
#include "stubs/mem_havoc.h"
#ifndef VERIF_NATIVE
int nondet_verdict(void); int nondet_blk(void);
int coap_handle_response_send_block(coap_session_t *s, coap_pdu_t *sent, coap_pdu_t *rcvd) { (void)s; (void)sent; (void)rcvd; G_sendblk++; G_sendblk_res = nondet_blk() != 0; return G_sendblk_res; }
int coap_handle_response_get_block(coap_context_t *c, coap_session_t *s, coap_pdu_t *sent, coap_pdu_t *rcvd, coap_recurse_t r) { (void)c; (void)s; (void)sent; (void)rcvd; (void)r; G_getblk++; G_getblk_res = nondet_blk() != 0; return G_getblk_res; }
int coap_get_block_b(const coap_session_t *s, const coap_pdu_t *p, coap_option_num_t n, coap_block_b_t *b) { (void)s; (void)p; (void)n; (void)b; return nondet_blk() != 0; }
static coap_response_t app_response_cb(coap_session_t *s, const coap_pdu_t *sent, const coap_pdu_t *rcvd, const coap_mid_t mid) {
  (void)s; (void)sent; (void)rcvd; G_handler++; G_handler_mid = mid;
  __CPROVER_assert(!G_held, "the response handler runs with the global lock released");
  if (coap_lock_lock_func()) coap_lock_unlock_func();          /* the application may call the API */
  int v = nondet_verdict(); G_handler_verdict = (v == COAP_RESPONSE_FAIL) ? COAP_RESPONSE_FAIL : COAP_RESPONSE_OK; return (coap_response_t)G_handler_verdict; }
#endif
void harness(void) {
  coap_context_t *ctx = malloc(sizeof(*ctx)); coap_session_t *session = malloc(sizeof(*session)); coap_pdu_t *sent = malloc(sizeof(*sent)), *rcvd = malloc(sizeof(*rcvd));
  ASSUME(ctx && session && rcvd);
  IN_SCALAR(uint8_t, proto); IN_SCALAR(uint8_t, rtype); IN_SCALAR(uint16_t, mid); IN_SCALAR(int, last_con); IN_SCALAR(int, last_ack); IN_SCALAR(_Bool, last_ok);
  IN_SCALAR(_Bool, has_handler); IN_SCALAR(uint32_t, block_mode); IN_SCALAR(uint8_t, tok_checked); IN_SCALAR(uint16_t, test_mid); IN_SCALAR(uint64_t, me);
  ASSUME(proto >= COAP_PROTO_UDP && proto <= COAP_PROTO_WSS && rtype <= 3 && me != 0);
  G_me = (pthread_t)me; coap_started = 1; global_lock.pid = G_me; global_lock.in_callback = 0; global_lock.lock_count = 0; G_held = 1; G_mutex_ops = 0;
  session->proto = (coap_proto_t)proto; session->last_con_mid = last_con; session->last_ack_mid = last_ack; session->last_con_handler_res = last_ok ? COAP_RESPONSE_OK : COAP_RESPONSE_FAIL;
  session->block_mode = block_mode; session->max_token_checked = tok_checked; session->remote_test_mid = test_mid; session->doing_first = 0; session->context = ctx;
  rcvd->type = (coap_pdu_type_t)rtype; rcvd->mid = mid; rcvd->code = COAP_RESPONSE_CODE(205); rcvd->actual_token.length = 0;
  ctx->response_handler = has_handler ? app_response_cb : NULL; coap_response_handler_t keep = app_response_cb; (void)keep;
  G_cancel = G_ack = G_rst = G_handler = G_sendblk = G_getblk = G_sendblk_res = G_getblk_res = 0;
  handle_response(ctx, session, sent, rcvd);
  int unrel = COAP_PROTO_NOT_RELIABLE(proto);
  int dup_con = unrel && rtype == COAP_MESSAGE_CON && mid == last_con, dup_ack = unrel && rtype == COAP_MESSAGE_ACK && mid == last_ack;
  int probe = !dup_con && !dup_ack && ((tok_checked == COAP_EXT_T_CHECKING && test_mid == mid) || ((block_mode & COAP_BLOCK_PROBE_Q_BLOCK) && test_mid == mid));
  CHECK(G_cancel == (rtype != COAP_MESSAGE_ACK ? 1 : 0), "a response that is not a piggy-backed ACK stops the retransmission of the request with that token, exactly once");
  CHECK(G_handler <= 1, "the response handler is called at most once per datagram");
  CHECK(!dup_con || (G_handler == 0 && G_ack + G_rst == 1 && (G_ack == 1) == (last_ok != 0)), "a duplicate Confirmable response is not re-delivered and is acknowledged again as before (ACK, or RST if the handler had failed it)");
  CHECK(!dup_ack || (G_handler == 0 && G_ack + G_rst == 0), "a duplicate ACK is ignored");
  CHECK(!(!dup_con && !dup_ack && !probe && !G_sendblk_res && !G_getblk_res && has_handler) || (G_handler == 1 && G_handler_mid == mid), "otherwise the handler is called exactly once, with the message id of the response");
  CHECK(!G_handler || (G_handler_verdict == COAP_RESPONSE_FAIL && rtype != COAP_MESSAGE_ACK ? (G_rst == 1 && G_ack == 0 && session->last_con_handler_res == COAP_RESPONSE_FAIL) : (G_ack == 1 && G_rst == 0 && session->last_con_handler_res == COAP_RESPONSE_OK)), "a handler verdict of FAIL on a non-ACK response produces a Reset, anything else an acknowledgement (attempt)");
  CHECK(G_held == 1 && global_lock.pid == G_me && global_lock.in_callback == 0 && global_lock.lock_count == 0, "the global lock is held again, balanced, when handle_response returns");
  MUSTFAIL(!(G_handler && G_rst), "fail_rst_reachable"); MUSTFAIL(!dup_con, "dup_con_reachable"); MUSTFAIL(!(G_handler && G_ack), "ack_reachable");
}
