/* units retransmit / wait_ack (-DWHICH=1,2): one step of the retransmission schedule (C06) with ghost-counting callees */
#include "coap3/coap_libcoap_build.h"
#include "spec/vin.h"
/* ghost log */
int G_send; coap_session_t *G_send_session; coap_pdu_t *G_send_pdu; coap_queue_t *G_send_node;
int G_insert; coap_queue_t *G_insert_node; coap_tick_t G_insert_t;
int G_deleted; coap_queue_t *G_deleted_node;
int G_nack; int G_nack_reason; int G_nack_mid; int G_events; int G_connected; int G_failed_notify; int G_ref;
const char *coap_session_str_contract(const coap_session_t *session)
__CPROVER_requires(1) __CPROVER_assigns() __CPROVER_ensures(1);
static ssize_t coap_send_pdu_contract(coap_session_t *session, coap_pdu_t *pdu, coap_queue_t *node)
__CPROVER_requires(1)
__CPROVER_assigns(G_send, G_send_session, G_send_pdu, G_send_node)
__CPROVER_ensures(G_send == __CPROVER_old(G_send) + 1 && G_send_session == session && G_send_pdu == pdu && G_send_node == node)
;
int coap_insert_node_contract(coap_queue_t **queue, coap_queue_t *node)
__CPROVER_requires(__CPROVER_r_ok(node, sizeof(*node)))
__CPROVER_assigns(G_insert, G_insert_node, G_insert_t)
__CPROVER_ensures(G_insert == __CPROVER_old(G_insert) + 1 && G_insert_node == node && G_insert_t == node->t)
;
int coap_delete_node_lkd_contract(coap_queue_t *node)
__CPROVER_requires(1)
__CPROVER_assigns(G_deleted, G_deleted_node)
__CPROVER_ensures(G_deleted == __CPROVER_old(G_deleted) + 1 && G_deleted_node == node)
;
int coap_handle_event_lkd_contract(coap_context_t *context, coap_event_t event, coap_session_t *session)
__CPROVER_requires(1) __CPROVER_assigns(G_events) __CPROVER_ensures(G_events == __CPROVER_old(G_events) + 1);
#include "src/coap_net.c"
#include "stubs/base.h"
#include "stubs/time_prng.h"
#include "stubs/mem_havoc.h"
#ifndef VERIF_NATIVE
int coap_prng_lkd(void *buf, size_t len) { __CPROVER_assert(__CPROVER_w_ok(buf, len), "prng buffer writable"); __CPROVER_havoc_slice(buf, len); return 1; }
void coap_session_connected(coap_session_t *s) { (void)s; G_connected++; }
void coap_handle_failed_notify(coap_context_t *c, coap_session_t *s, const coap_bin_const_t *t) { (void)c; (void)s; (void)t; G_failed_notify++; }
void coap_handle_nack(coap_session_t *s, coap_pdu_t *sent, const coap_nack_reason_t reason, const coap_mid_t mid) { (void)s; (void)sent; G_nack++; G_nack_reason = reason; G_nack_mid = mid; }
void coap_update_io_timer(coap_context_t *c, coap_tick_t d) { (void)c; (void)d; }
coap_session_t *coap_session_reference_lkd(coap_session_t *s) { G_ref++; return s; }
#endif
void harness(void) {
  coap_context_t *ctx = malloc(sizeof(*ctx)); coap_session_t *session = malloc(sizeof(*session)); coap_queue_t *node = malloc(sizeof(*node)); coap_pdu_t *pdu = malloc(sizeof(*pdu));
  ASSUME(ctx && session && node && pdu);
  IN_SCALAR(uint8_t, cnt); IN_SCALAR(uint16_t, maxr); IN_SCALAR(unsigned, timeout); IN_SCALAR(uint8_t, ptype); IN_SCALAR(uint8_t, mcast); IN_SCALAR(uint8_t, con_active);
  IN_SCALAR(uint32_t, basetime); IN_SCALAR(_Bool, queue_empty); IN_SCALAR(unsigned, ping); IN_SCALAR(uint16_t, mid); IN_SCALAR(uint8_t, pcode);
  ASSUME(ptype <= 3 && timeout <= 100000 && maxr <= 20);
  node->session = session; node->pdu = pdu; node->retransmit_cnt = cnt; node->timeout = timeout; node->is_mcast = mcast ? 1 : 0; node->id = mid; node->next = NULL;
  session->max_retransmit = maxr; session->con_active = con_active; pdu->type = (coap_pdu_type_t)ptype; pdu->code = pcode; pdu->mid = mid;
  ctx->sendqueue = queue_empty ? NULL : node /* any non-NULL */; ctx->sendqueue_basetime = basetime; ctx->ping_timeout = ping;
  G_send = G_insert = G_deleted = G_nack = G_events = G_connected = G_failed_notify = G_ref = 0;
#if WHICH == 1
  ASSUME(cnt < 16);
  coap_mid_t r = coap_retransmit(ctx, node);
  if (cnt < maxr) {
    CHECK(node->retransmit_cnt == cnt + 1, "a retransmission increments the counter by one");
    CHECK(G_send == 1 && G_send_session == session && G_send_pdu == pdu && G_send_node == node, "the SAME pdu object is handed to the send path exactly once (byte-identical retransmission)");
    CHECK(G_nack == 0, "no NACK while retransmissions remain");
    CHECK(G_insert == 1 && G_insert_node == node, "the node is re-queued exactly once");
    /* the next delay is T * 2^n (n = new counter) unless capped by the keep-alive (ping) timeout */
    int capped = ping && (uint64_t)ping * 1000 < ((uint64_t)timeout << (cnt + 1));
    CHECK(capped || !queue_empty || G_insert_t == ((uint64_t)timeout << (cnt + 1)), "with an empty queue the node is due T*2^n ticks after now (doubling), and now becomes the base time");
    CHECK(capped || queue_empty || (ctx->sendqueue_basetime == basetime && G_insert_t == (coap_tick_t)(G_last_ticks - basetime) + ((uint64_t)timeout << (cnt + 1))), "with a non-empty queue the base time is kept and the due time is (now - base) + T*2^n");
    CHECK(!queue_empty || ctx->sendqueue_basetime == G_last_ticks, "with an empty queue now becomes the base time");
    CHECK(mcast ? (G_deleted == 1 && G_deleted_node == node) : G_deleted == 0, "the node stays alive for the next timeout (multicast responses are one-shot)");
  } else {
    CHECK(G_send == 0 && G_insert == 0, "after MAX_RETRANSMIT retransmissions the message is never sent or queued again");
    CHECK(G_nack == (ptype == COAP_MESSAGE_CON ? 1 : 0) && (!G_nack || (G_nack_reason == COAP_NACK_TOO_MANY_RETRIES && G_nack_mid == mid)), "giving up reports exactly one NACK (TOO_MANY_RETRIES, this message id) for a Confirmable");
    CHECK(G_deleted == 1 && G_deleted_node == node && r == COAP_INVALID_MID, "giving up releases the node exactly once");
    CHECK(session->con_active == (con_active ? con_active - 1 : 0), "giving up frees the NSTART slot");
  }
  MUSTFAIL(!(cnt < maxr), "retransmit_reachable"); MUSTFAIL(cnt < maxr, "giveup_reachable");
#else
  ASSUME(cnt < 16);
  coap_tick_t now_before = 0; (void)now_before;
  coap_mid_t r = coap_wait_ack(ctx, session, node);
  CHECK(r == mid, "coap_wait_ack returns the message id");
  CHECK(G_ref == 1 && node->session == session, "the queued node holds exactly one session reference");
  CHECK(G_insert == 1 && G_insert_node == node, "the node is inserted into the retransmission queue exactly once");
  CHECK(!queue_empty || (G_insert_t == (coap_tick_t)(timeout << cnt)), "first entry: due T*2^count after the new base time (= now)");
  CHECK(queue_empty || (ctx->sendqueue_basetime == basetime && G_insert_t == (coap_tick_t)(G_last_ticks - basetime) + (coap_tick_t)(timeout << cnt)), "later entry: the base time is kept and the node is due (now - base) + T*2^count");
  CHECK(!queue_empty || ctx->sendqueue_basetime == G_last_ticks, "first entry: now becomes the base time");
  MUSTFAIL(!queue_empty, "first_entry_reachable"); MUSTFAIL(queue_empty, "later_entry_reachable");
#endif
}
