/* unit add_option_p: the append path of coap_add_option_internal (C01 P3, the inductive step of message building):
 * number >= highest number so far; all sizes symbolic; allocator may fail.  The out-of-order path is delegated to
 * coap_insert_option (ghost contract: counted, arbitrary result) and the implicit Hop-Limit insertion for
 * Proxy-Uri / Proxy-Scheme requests goes through the same call. */
#include "coap3/coap_libcoap_build.h"
#include "spec/vin.h"
#ifndef PDU_MAXA
#define PDU_MAXA 70000
#endif
#include "spec/c_option.h"
#include "spec/c_pdu.h"
int G_insert_calls; int G_insert_number; coap_opt_t *G_hop;
size_t coap_insert_option_contract(coap_pdu_t *pdu, coap_option_num_t number, size_t len, const uint8_t *data)
__CPROVER_requires(1) __CPROVER_assigns(G_insert_calls, G_insert_number)
__CPROVER_ensures(G_insert_calls == __CPROVER_old(G_insert_calls) + 1 && G_insert_number == number && __CPROVER_return_value <= MAXOPTLEN + 5);
/* frame of the function under proof: the PDU struct, its buffer (which may be re-allocated) and the ghosts */
size_t coap_add_option_internal_unit_contract(coap_pdu_t *pdu, coap_option_num_t number, size_t len, const uint8_t *data)
__CPROVER_requires(PDU_WF_MEM(pdu) && PDU_WF_SCALAR(pdu) && len <= MAXOPTLEN && (data == NULL || __CPROVER_r_ok(data, len)))
__CPROVER_assigns(*pdu, __CPROVER_object_whole(pdu->token), G_insert_calls, G_insert_number)
__CPROVER_frees(pdu_block_freeable(pdu))
__CPROVER_ensures(__CPROVER_return_value <= MAXOPTLEN + 5);
coap_opt_t *coap_check_option_contract(const coap_pdu_t *pdu, coap_option_num_t number, coap_opt_iterator_t *oi)
__CPROVER_requires(1) __CPROVER_assigns() __CPROVER_ensures(__CPROVER_return_value == G_hop);
#include "src/coap_pdu.c"
#include "src/coap_option.c"
#include "src/coap_encode.c"
#include "stubs/base.h"
#include "stubs/mem_havoc.h"
void harness(void) {
  HARNESS_PDU(pdu);
  ASSUME(max_size != 0);
  pdu->hdr_size = 0; pdu->session = NULL;
  IN_SCALAR(uint16_t, number); IN_SCALAR(size_t, len); IN_SCALAR(_Bool, has_hop);
  ASSUME(len <= 1034);
  IN_BUF(val, len, 16);
  /* a payload, if present, is preceded by its marker */
  ASSUME(!data_off || pdu->token[data_off - 1] == 0xFF);
  G_insert_calls = 0; G_old_doff = data_off; G_hop = has_hop ? pdu->token : NULL;
  const size_t old_etkl = pdu->e_token_length;
  size_t r = coap_add_option_internal(pdu, number, len, val);
  int proxy_req = COAP_PDU_IS_REQUEST(pdu) && (number == COAP_OPTION_PROXY_URI || number == COAP_OPTION_PROXY_SCHEME);
  size_t newsz = HDRSZ(number - max_opt, len) + len;
  if (number < max_opt) {
    CHECK(G_insert_calls >= 1 && G_insert_number == number && pdu->used_size == used_size, "an out-of-order option is handed to coap_insert_option (and nothing is appended)");
  } else if (!proxy_req || has_hop) {
    CHECK(G_insert_calls == 0, "an in-order option is appended, not inserted");
    CHECK(r == 0 || r == newsz, "coap_add_option_internal returns the encoded size of the option (header for delta = number - max_opt, plus value)");
    CHECK(!r || (pdu->used_size == used_size + newsz && pdu->max_opt == number && pdu->used_size <= pdu->alloc_size && pdu->alloc_size <= pdu->max_size && pdu->e_token_length == old_etkl), "appending grows the message by exactly the encoded size and makes this number the highest");
    CHECK(!r || (data_off ? (pdu->data != NULL && (size_t)(pdu->data - pdu->token) == data_off + newsz) : pdu->data == NULL), "a payload moves behind the new option");
    CHECK(!r || (DELTA(pdu->token + (data_off ? data_off - 1 : used_size)) == (uint32_t)(number - max_opt) && LENV(pdu->token + (data_off ? data_off - 1 : used_size)) == len), "the new option sits right behind the previous ones and decodes (RFC 7252 3.1) to delta = number - max_opt and the given length");
    CHECK(r || (pdu->used_size == used_size && pdu->max_opt == max_opt && (data_off ? (size_t)(pdu->data - pdu->token) == data_off : pdu->data == NULL)), "a refused option (illegal repetition, no space, allocation failure) changes neither sizes nor the highest number nor the payload position");
    CHECK(!(number == max_opt && !coap_option_check_repeatable(number)) || r == 0, "repeating a non-repeatable option is refused");
  } else if (number == max_opt && !coap_option_check_repeatable(number)) {
    CHECK(r == 0 && pdu->used_size == used_size, "repeating a non-repeatable option is refused before anything else happens");
  } else {
    CHECK(G_insert_calls >= 1, "a Proxy-Uri / Proxy-Scheme request without Hop-Limit gets one inserted (RFC 8768)");
  }
  MUSTFAIL(!(r && data_off && number >= max_opt && G_insert_calls == 0), "append_before_payload_reachable"); MUSTFAIL(!(r == 0 && number >= max_opt), "refusal_reachable"); MUSTFAIL(!(proxy_req && !has_hop), "hop_limit_insertion_reachable");
}
