/* units oscore_option_decode / oscore_option_roundtrip / oscore_nonce (-DWHICH=1..3): C14 (and C02 for the decoder) */
#include "coap3/coap_libcoap_build.h"
#include "spec/vin.h"
#include "src/oscore/oscore.c"
#include "src/oscore/oscore_cose.c"
#include "src/oscore/oscore_cbor.c"
#include "src/coap_encode.c"
#include "stubs/base.h"
#include "stubs/mem_loops.h"
/* RFC 8613 6.1: flag byte 0 0 0 h k n n n ; n = PIV length (0..5; 6,7 reserved), k = kid present, h = kid context present
 * layout: flags | PIV (n bytes) | [s (1 byte) | kid context (s bytes)] | kid (rest) */
#define F_N(b) ((b) & 7u)
#define F_K(b) (((b) >> 3) & 1u)
#define F_H(b) (((b) >> 4) & 1u)
void harness(void) {
#if WHICH == 1
  IN_SCALAR(size_t, n);
  ASSUME(n <= 300);
  IN_BUF(v, n, 24);
  cose_encrypt0_t cose;
#ifdef VERIF_NATIVE
  memset(&cose, 0, sizeof cose);
#endif
  cose.partial_iv.s = NULL; cose.partial_iv.length = 0; cose.key_id.s = NULL; cose.key_id.length = 0;
  cose.kid_context.s = NULL; cose.kid_context.length = 0;
  int r = oscore_decode_option_value(v, n, &cose);
  /* independent validity + field positions */
  int valid = 1; size_t off = 1, pn = 0, cl = 0, coff = 0, koff = 0, kl = 0;
  if (n > 0) {
    if (n > 255 || (v[0] & 0xE0) != 0 || F_N(v[0]) >= 6) valid = 0;
    else {
      pn = F_N(v[0]);
      if (1 + pn > n) valid = 0;
      else {
        off = 1 + pn;
        if (F_H(v[0])) {
          if (off >= n) valid = 0;
          else { cl = v[off]; coff = off + 1; if (coff + cl > n) valid = 0; else off = coff + cl; }
        }
        if (valid && F_K(v[0])) { koff = off; kl = n - off; }
      }
    }
  }
  CHECK(r == 0 || r == 1, "oscore_decode_option_value returns 0 or 1");
  CHECK((r == 1) == valid, "oscore_decode_option_value accepts exactly the RFC 8613 6.1 well-formed option values (reserved bits, n in {6,7} and truncated fields rejected)");
  CHECK(!(r && n > 0 && pn) || (cose.partial_iv.length == pn && cose.partial_iv.s == cose.partial_iv_data), "the partial IV has the length given by the flag byte");
  CHECK(!(r && n > 0 && F_H(v[0])) || (cose.kid_context.length == cl && cose.kid_context.s == v + coff), "the kid context is the length-prefixed field after the partial IV");
  CHECK(!(r && n > 0 && F_K(v[0])) || (cose.key_id.length == kl && cose.key_id.s == v + koff), "the kid is the rest of the option");
  CHECK(!(r && n > 0 && pn) || (cose.partial_iv_data[0] == v[1] && (pn < 5 || cose.partial_iv_data[4] == v[5])), "the partial IV bytes are the bytes after the flag byte");
  MUSTFAIL(!(r && n > 0 && F_H(v[0]) && F_K(v[0]) && kl == 0 && cl > 0), "context_and_empty_kid_reachable");
  MUSTFAIL(r, "reject_reachable");
  MUSTFAIL(!(r && n == 0), "empty_reachable");
#elif WHICH == 2
  IN_SCALAR(size_t, piv_len); IN_SCALAR(size_t, kid_len); IN_SCALAR(size_t, ctx_len);
  IN_SCALAR(_Bool, have_kid); IN_SCALAR(_Bool, have_ctx);
  IN_BYTES(piv, 5); IN_BYTES(kid, 8); IN_BYTES(ctx, 8);
  ASSUME(piv_len <= 5 && kid_len <= 8 && ctx_len >= 1 && ctx_len <= 8);
  cose_encrypt0_t cose, out;
#ifdef VERIF_NATIVE
  memset(&cose, 0, sizeof cose); memset(&out, 0, sizeof out);
#endif
  cose.partial_iv.s = piv_len ? piv.b : NULL; cose.partial_iv.length = piv_len;
  cose.key_id.s = have_kid ? kid.b : NULL; cose.key_id.length = have_kid ? kid_len : 0;
  cose.kid_context.s = have_ctx ? ctx.b : NULL; cose.kid_context.length = have_ctx ? ctx_len : 0;
  uint8_t buf[40];
  size_t L = oscore_encode_option_value(buf, sizeof(buf), &cose, 0, 0);
  size_t expect = 1 + piv_len + (have_ctx ? 1 + ctx_len : 0) + (have_kid ? kid_len : 0);
  if (expect == 1 && !have_kid && !have_ctx && piv_len == 0) expect = 0;
  CHECK(L == expect, "oscore_encode_option_value: length = flags + PIV + [1 + kid context] + kid (empty when nothing is set)");
  CHECK(L == 0 || buf[0] == (piv_len | (have_kid ? 8u : 0u) | (have_ctx ? 16u : 0u)), "oscore_encode_option_value: flag byte is 000hknnn per RFC 8613 6.1");
  CHECK(L == 0 || piv_len == 0 || (buf[1] == piv.b[0] && buf[piv_len] == piv.b[piv_len - 1]), "partial IV follows the flag byte");
  CHECK(L == 0 || !have_ctx || (buf[1 + piv_len] == ctx_len && buf[2 + piv_len] == ctx.b[0] && buf[1 + piv_len + ctx_len] == ctx.b[ctx_len - 1]), "kid context is length-prefixed after the partial IV");
  CHECK(L == 0 || !have_kid || kid_len == 0 || (buf[L - kid_len] == kid.b[0] && buf[L - 1] == kid.b[kid_len - 1]), "kid is the tail of the option");
  out.partial_iv.s = NULL; out.partial_iv.length = 0; out.key_id.s = NULL; out.key_id.length = 0; out.kid_context.s = NULL; out.kid_context.length = 0;
  int r = oscore_decode_option_value(buf, L, &out);
  CHECK(r == 1, "what oscore_encode_option_value produces is accepted by oscore_decode_option_value");
  CHECK(L == 0 || (out.partial_iv.length == piv_len && (piv_len == 0 || (out.partial_iv.s[0] == piv.b[0] && out.partial_iv.s[piv_len - 1] == piv.b[piv_len - 1]))), "round trip: partial IV");
  CHECK(L == 0 || !have_ctx || (out.kid_context.length == ctx_len && out.kid_context.s[0] == ctx.b[0] && out.kid_context.s[ctx_len - 1] == ctx.b[ctx_len - 1]), "round trip: kid context");
  CHECK(L == 0 || !have_kid || (out.key_id.length == kid_len && (kid_len == 0 || (out.key_id.s[0] == kid.b[0] && out.key_id.s[kid_len - 1] == kid.b[kid_len - 1]))), "round trip: kid");
  MUSTFAIL(!(L && have_ctx && have_kid && kid_len == 0), "context_and_empty_kid_reachable");
  MUSTFAIL(L != 0, "empty_reachable");
#elif WHICH == 3
  IN_SCALAR(size_t, kid_len); IN_SCALAR(size_t, piv_len); IN_SCALAR(size_t, gi);
  IN_BYTES(kid, 8); IN_BYTES(piv, 5); IN_BYTES(civ, 13);
  ASSUME(kid_len <= 7 && piv_len <= 5 && gi < 13);
  cose_encrypt0_t cose; oscore_ctx_t octx; coap_bin_const_t common_iv;
#ifdef VERIF_NATIVE
  memset(&cose, 0, sizeof cose); memset(&octx, 0, sizeof octx);
#endif
  cose.key_id.s = kid.b; cose.key_id.length = kid_len; cose.partial_iv.s = piv.b; cose.partial_iv.length = piv_len;
  common_iv.s = civ.b; common_iv.length = 13; octx.common_iv = &common_iv;
  uint8_t nonce[13];
  oscore_generate_nonce(&cose, &octx, nonce, 13);
  /* RFC 8613 5.2: nonce = (len(kid) | kid left-padded to 7 bytes | PIV left-padded to 5 bytes) XOR Common IV */
  uint8_t plain = gi == 0 ? (uint8_t)kid_len : gi < 8 ? (gi >= 8 - kid_len ? kid.b[gi - (8 - kid_len)] : 0) : (gi >= 13 - piv_len ? piv.b[gi - (13 - piv_len)] : 0);
  CHECK(nonce[gi] == (uint8_t)(plain ^ civ.b[gi]), "oscore_generate_nonce: byte i of the nonce is (len(kid) | pad | kid | pad | PIV)[i] XOR common_iv[i] (RFC 8613 5.2)");
  MUSTFAIL(!(kid_len == 7 && piv_len == 5), "max_lengths_reachable");
#else
  /* unit oscore_aad (WHICH == 4): oscore_prepare_e_aad and oscore_prepare_aad against RFC 8613 5.4 / RFC 9052 5.3 written out byte by byte:
   * external_aad = [ 1, [ alg ], request_kid, request_piv, h'' ]   (array head 0x85, version 0x01, array head 0x81, alg, bstr, bstr, 0x40)
   * AAD           = [ "Encrypt0", h'', external_aad ]              (0x83, 0x68 'Encrypt0', 0x40, bstr head, external_aad bytes) */
  IN_SCALAR(uint8_t, kl); IN_SCALAR(uint8_t, pl); IN_SCALAR(uint8_t, alg); IN_SCALAR(size_t, g);
  ASSUME(kl <= 7 && pl <= 5 && alg <= 23 && g < 40);        /* AEAD algorithm identifiers registered for OSCORE are small positive integers (10: AES-CCM-16-64-128) */
  IN_BYTES(kid, 7); IN_BYTES(piv, 5);
  static oscore_ctx_t octx; static cose_encrypt0_t cose; static uint8_t ext[40], aad[64];
  octx.mode = OSCORE_MODE_SINGLE; octx.aead_alg = (cose_alg_t)alg;
  cose.key_id.s = kid.b; cose.key_id.length = kl; cose.partial_iv.s = piv.b; cose.partial_iv.length = pl;
  size_t el = oscore_prepare_e_aad(&octx, &cose, NULL, 0, NULL, ext, sizeof(ext));
  CHECK(el == 4 + 1 + kl + 1 + pl + 1, "external_aad has the size of [1, [alg], kid, piv, h'']");
  uint8_t want = g == 0 ? 0x85 : g == 1 ? 0x01 : g == 2 ? 0x81 : g == 3 ? alg : g == 4 ? (uint8_t)(0x40 | kl) : g < 5u + kl ? kid.b[g - 5] :
                 g == 5u + kl ? (uint8_t)(0x40 | pl) : g < 6u + kl + pl ? piv.b[g - 6 - kl] : 0x40;
  CHECK(g >= el || ext[g] == want, "every byte of external_aad is the RFC 8613 5.4 CBOR encoding of [oscore_version 1, [alg_aead], request_kid, request_piv, options h'']");
  size_t al = oscore_prepare_aad(ext, el, aad, sizeof(aad));
  size_t hs = el < 24 ? 1 : 2;
  CHECK(al == 1 + 9 + 1 + hs + el, "the AAD has the size of [\"Encrypt0\", h'', external_aad]");
  static const uint8_t pre[11] = { 0x83, 0x68, 'E', 'n', 'c', 'r', 'y', 'p', 't', '0', 0x40 };
  uint8_t want2 = g < 11 ? pre[g] : g == 11 ? (el < 24 ? (uint8_t)(0x40 | el) : 0x58) : (hs == 2 && g == 12) ? (uint8_t)el : ext[g - 11 - hs];
  CHECK(g >= al || aad[g] == want2, "every byte of the AAD is the RFC 9052 Enc_structure [\"Encrypt0\", h'', external_aad] in CBOR");
  MUSTFAIL(!(kl == 7 && pl == 5), "max_sizes_reachable"); MUSTFAIL(!(kl == 0 && pl == 0), "empty_reachable");
#endif
}
