/* unit opt_encode: coap_opt_encode, callee coap_opt_setheader replaced by its contract (C01 P1) */
#include "coap3/coap_libcoap_build.h"
#include "spec/vin.h"
#include "spec/c_option.h"
#include "src/coap_option.c"
#include "stubs/base.h"
#include "stubs/mem_havoc.h"
#ifndef CAPW
#define CAPW 24
#endif
void harness(void) {
  IN_SCALAR(size_t, maxlen);
  IN_SCALAR(uint16_t, delta);
  IN_SCALAR(size_t, length);
  IN_SCALAR(_Bool, have_val);
  ASSUME(length <= MAXOPTLEN);
  IN_BUF(buf, maxlen, CAPW);
  IN_BUF(val, length, CAPW);
  size_t r = coap_opt_encode(buf, maxlen, delta, have_val ? val : NULL, length);
  CHECK(POST_ENCODE_RET(r, maxlen, delta, length), "coap_opt_encode returns header+value size, or 0 iff it does not fit");
  CHECK(POST_SETHEADER_BYTES(r, buf, delta, length), "coap_opt_encode leaves a header that decodes to (delta,length)");
  MUSTFAIL(r == 0, "accept_reachable");
  MUSTFAIL(r != 0, "reject_reachable");
}
