/* unit io_prepare_retx_b: the retransmission step of coap_io_prepare_io_lkd (C06): nodes of the retransmission queue are fired exactly
 * when their absolute due time has been reached - never early, all that are due - and the wait time reported to the caller never
 * exceeds the time to the earliest pending deadline.  coap_peek_next / coap_pop_next are the real bodies; coap_retransmit is
 * replaced by a ghost stub (it has its own unit).  Plain cbmc (no --dfcc), static objects.  Bounded: queue of 0..3 nodes, no
 * endpoints / sessions / DTLS context / proxy entries. */
#include "coap3/coap_libcoap_build.h"
#include "spec/vin.h"
#include "spec/lock_ghost.h"
#define coap_retransmit real_coap_retransmit
#include "src/coap_net.c"
#undef coap_retransmit
#include "src/coap_io.c"
#include "src/coap_threadsafe.c"
#include "stubs/base.h"
#include "stubs/time_prng.h"
#include "stubs/mem_havoc.h"
#define QN 3
static coap_queue_t n0, n1, n2; coap_tick_t G_due[QN], G_now; int G_fired[QN], G_early, G_order_bad, G_nfired, G_requeued;
int nondet_mid(void);
/* ghost model of coap_retransmit: records the firing; then - as the real function does through coap_wait_ack - either gives the message
 * up or queues the node again with a fresh delay D >= 1 relative to the time G_now2 >= now at which it runs (the base time is reset
 * when the queue had become empty).  coap_insert_node is the real body. */
_Bool nondet_requeue(void); coap_tick_t nondet_delay(void); coap_tick_t nondet_later(void);
coap_mid_t coap_retransmit(coap_context_t *context, coap_queue_t *node) {
  int i = node == &n0 ? 0 : node == &n1 ? 1 : 2;
  if (G_due[i] > G_now) G_early++;
  G_fired[i]++; G_nfired++;
#ifdef REQUEUE
  if (nondet_requeue()) {
    coap_tick_t D = nondet_delay(), later = nondet_later(); __CPROVER_assume(D >= 1 && D < ((coap_tick_t)1 << 29) && later < 1000);
    coap_tick_t now2 = G_now + later;
    if (context->sendqueue == NULL) { node->t = D; context->sendqueue_basetime = now2; }
    else { __CPROVER_assume(now2 >= context->sendqueue_basetime); node->t = (now2 - context->sendqueue_basetime) + D; }
    G_due[i] = now2 + D; G_requeued++;
    coap_insert_node(&context->sendqueue, node);
  }
#endif
  return nondet_mid();
}
void coap_check_notify_lkd(coap_context_t *c) { (void)c; }
int coap_proxy_check_timeouts(coap_context_t *c, coap_tick_t now, coap_tick_t *t) { (void)c; (void)now; (void)t; return 0; }
void harness(void) {
  static coap_context_t ctx_o; coap_context_t *ctx = &ctx_o; coap_queue_t *const q[QN] = { &n0, &n1, &n2 };
  IN_SCALAR(uint64_t, me); ASSUME(me != 0);
  G_me = (pthread_t)me; coap_started = 1; global_lock.pid = G_me; global_lock.in_callback = 0; global_lock.lock_count = 0; G_held = 1;
  IN_SCALAR(uint8_t, n); IN_SCALAR(coap_tick_t, base); IN_SCALAR(coap_tick_t, now); IN_SCALAR(coap_tick_t, t0); IN_SCALAR(coap_tick_t, t1); IN_SCALAR(coap_tick_t, t2);
  /* delays below 2^29 ticks and a base time at most 2^29 ticks ahead: the pending time then fits the 32-bit millisecond result (a delay of
   * 2^32 ms = 49 days would be reported as 0 = 'nothing pending'; outside this unit's domain, stated in the bounds) */
  ASSUME(n <= QN && base < ((coap_tick_t)1 << 48) && now < ((coap_tick_t)1 << 48) && base <= now + ((coap_tick_t)1 << 29) && t0 < ((coap_tick_t)1 << 29) && t1 < ((coap_tick_t)1 << 29) && t2 < ((coap_tick_t)1 << 29));
  const coap_tick_t t[QN] = { t0, t1, t2 };
  coap_tick_t acc = base;
  for (int i = 0; i < QN; i++) { q[i]->next = (i + 1 < n) ? q[i + 1 < QN ? i + 1 : QN - 1] : NULL; q[i]->t = t[i]; acc += t[i]; G_due[i] = acc; G_fired[i] = 0; }
  ctx->sendqueue = n ? q[0] : NULL; ctx->sendqueue_basetime = base; ctx->endpoint = NULL; ctx->sessions = NULL; ctx->dtls_context = NULL; ctx->session_timeout = 0;
  ctx->ping_timeout = 0;
  G_now = now; G_early = G_order_bad = G_nfired = G_requeued = 0;
  coap_tick_t due0[QN]; for (int i = 0; i < QN; i++) due0[i] = G_due[i];
  unsigned int ns = 0;
  unsigned int wait_ms = coap_io_prepare_io_lkd(ctx, NULL, 0, &ns, now);
  CHECK(G_early == 0, "no message is retransmitted before its due time (base time + the delays of the nodes before it and its own)");
  for (int i = 0; i < QN; i++) if (i < n) CHECK(G_fired[i] == (due0[i] <= now ? 1 : 0), "every queued message whose due time has been reached is handed to coap_retransmit exactly once in this step (a message queued again by it waits for its new due time), the others not at all");
  /* the earliest pending deadline: minimum over the nodes still queued */
  _Static_assert(COAP_TICKS_PER_SECOND == 1000, "the reported milliseconds are ticks in this configuration");
#ifdef CHECK_WAIT
  for (int i = 0; i < QN; i++) if (i < n && (G_fired[i] == 0) && !G_requeued)
    CHECK(wait_ms >= 1 && wait_ms <= G_due[i] - now, "the wait time reported to the caller does not exceed the time to any pending retransmission deadline");
#else
  (void)wait_ms;
#endif
  MUSTFAIL(!(G_nfired == 2 && n == 3), "two_of_three_fired_reachable"); MUSTFAIL(!(G_nfired == 0 && n == 3 && now > base), "none_due_reachable");
}
