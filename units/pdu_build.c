/* units next_option_safe / pdu_resize / pdu_check_resize / add_token / add_data_after (selected by -DWHICH) */
#include "coap3/coap_libcoap_build.h"
#include "spec/vin.h"
#include "spec/c_option.h"
#include "spec/c_pdu.h"
#include "src/coap_pdu.c"
#include "src/coap_encode.c"
#ifdef WITH_OPTION_C
#include "src/coap_option.c"
#endif
#include "stubs/base.h"
#include "stubs/mem_havoc.h"
void harness(void) {
#if WHICH == 1   /* next_option_safe over a suffix object */
  IN_SCALAR(size_t, n);
  IN_SCALAR(uint16_t, max_opt);
  IN_BUF(buf, n, 24);
  coap_opt_t *opt = buf; size_t length = n; uint16_t mo = max_opt;
  size_t r = next_option_safe(&opt, &length, &mo);
  CHECK(POST_NOS_ACCEPT(r, buf, n, max_opt), "next_option_safe accepts iff the option is RFC well-formed and the option number stays <= 65535");
  CHECK(POST_NOS_STEP(r, &opt, &length, &mo, buf, n, max_opt), "next_option_safe advances by exactly the encoded size and adds the delta; nothing changes on rejection");
  MUSTFAIL(r == 0, "accept_reachable");
  MUSTFAIL(r != 0, "reject_reachable");
#elif WHICH == 2 /* coap_pdu_resize */
  HARNESS_PDU(pdu);
  IN_SCALAR(size_t, new_size);
  ASSUME(new_size <= 2 * MAXRX);
  G_old_doff = data_off;
  uint8_t *old_token = pdu->token, *old_data = pdu->data;
  int r = coap_pdu_resize(pdu, new_size);
  CHECK(r == 0 || r == 1, "coap_pdu_resize returns 0 or 1");
  CHECK(POST_RESIZE_OK(r, pdu, new_size, alloc_size, data_off), "coap_pdu_resize: alloc_size set, payload offset and token pointer re-based after realloc");
  CHECK(POST_RESIZE_REFUSED(r, pdu, new_size, alloc_size, old_token, old_data), "coap_pdu_resize: refusal leaves the PDU unchanged");
  MUSTFAIL(r != 1, "accept_reachable");
  MUSTFAIL(r != 0, "reject_reachable");
  MUSTFAIL(!(r == 1 && new_size > alloc_size && data_off), "grow_with_payload_reachable");
#elif WHICH == 3 /* coap_pdu_check_resize */
  HARNESS_PDU(pdu);
  IN_SCALAR(size_t, size);
  ASSUME(size <= 2 * MAXRX);
  G_old_doff = data_off;
  int r = coap_pdu_check_resize(pdu, size);
  CHECK(r == 0 || r == 1, "coap_pdu_check_resize returns 0 or 1");
  CHECK(POST_CHKRESIZE(r, pdu, size, alloc_size), "coap_pdu_check_resize: on success alloc_size >= size within max_size; on refusal unchanged");
  MUSTFAIL(r != 1, "accept_reachable");
  MUSTFAIL(r != 0, "reject_reachable");
  MUSTFAIL(!(r == 1 && size > alloc_size), "grow_reachable");
#elif WHICH == 4 /* coap_add_token */
  HARNESS_PDU(pdu);
  ASSUME(data_off == 0);
  IN_SCALAR(size_t, len);
  ASSUME(len <= TOKMAX + 2);
  IN_BUF(tok, len, CAPW);
  G_old_doff = 0;
  size_t old_etkl = pdu->e_token_length;
  int r = coap_add_token(pdu, len, tok);
  CHECK(r == 0 || r == 1, "coap_add_token returns 0 or 1");
  CHECK(r == 0 || (used_size == 0 && len <= TOKMAX), "coap_add_token only on an empty PDU and for lengths up to 65804");
  CHECK(POST_ADDTOK_OK(r, pdu, len), "coap_add_token: token length fields, used_size, no options, no payload");
  CHECK(POST_UPDTOK_EXT(r, pdu, len), "coap_add_token: RFC 8974 extended token length bytes");
  CHECK(r == 1 || (pdu->used_size == used_size && pdu->e_token_length == old_etkl), "coap_add_token: refusal leaves sizes unchanged");
  MUSTFAIL(r != 1, "accept_reachable");
  MUSTFAIL(r != 0, "reject_reachable");
  MUSTFAIL(!(r == 1 && len > 300), "long_token_reachable");
#elif WHICH == 5 /* coap_add_data_after */
  HARNESS_PDU(pdu);
  IN_SCALAR(size_t, len);
  ASSUME(len <= MAXRX);
  G_old_doff = data_off;
  uint8_t *old_data = pdu->data;
  uint8_t *r = coap_add_data_after(pdu, len);
  CHECK(POST_ADDDATA(r, pdu, len, used_size, old_data), "coap_add_data_after: marker at the old end, payload space right behind it, used_size grows by 1+len; refusal changes nothing");
  MUSTFAIL(r == NULL, "accept_reachable");
  MUSTFAIL(r != NULL, "reject_reachable");
#endif
}
