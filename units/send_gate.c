/* units send_gate / dgram_route (-DWHICH=1,2): the transmission gate of coap_send_pdu (C08 NSTART, C19 state gate)
 * and the DTLS datagram routing of coap_handle_dgram_for_proto (C19) */
#include "coap3/coap_libcoap_build.h"
#include "spec/vin.h"
#include "spec/c_net.h"
#include "src/coap_net.c"
#include "stubs/base.h"
#include "stubs/time_prng.h"
#include "stubs/mem_havoc.h"
#ifndef VERIF_NATIVE
ssize_t nondet_delay_result(void); int nondet_tls_result(void);
/* callees in other translation units: ghost-counting stubs with arbitrary results */
ssize_t coap_session_delay_pdu(coap_session_t *session, coap_pdu_t *pdu, coap_queue_t *node) {
  (void)session; G_delayed++; G_delayed_pdu = pdu; G_delayed_node = node; return nondet_delay_result();
}
void coap_packet_get_memmapped(coap_packet_t *packet, unsigned char **address, size_t *length) { *address = packet->payload; *length = packet->length; } /* as in coap_io.c */
int coap_dtls_hello(coap_session_t *s, const uint8_t *d, size_t l) { (void)s; (void)d; (void)l; G_hello++; return nondet_tls_result(); }
int coap_dtls_receive(coap_session_t *s, const uint8_t *d, size_t l) { (void)s; (void)d; (void)l; G_dtlsrx++; return nondet_tls_result(); }
#endif
void harness(void) {
  coap_session_t *session = malloc(sizeof(*session));
  ASSUME(session != NULL);
  G_sent = 0; G_delayed = 0; G_plain = 0; G_hello = 0; G_dtlsrx = 0; G_sent_state = -1;
#if WHICH == 1
  coap_pdu_t *pdu = malloc(sizeof(*pdu)); coap_queue_t *node = malloc(sizeof(*node));
  ASSUME(pdu != NULL);
  IN_SCALAR(uint8_t, state); IN_SCALAR(uint8_t, ptype); IN_SCALAR(uint8_t, con_active); IN_SCALAR(uint8_t, nstart); IN_SCALAR(uint8_t, proto);
  IN_SCALAR(uint16_t, sflags); IN_SCALAR(uint8_t, stype);
  ASSUME(ptype <= 3 && state <= COAP_SESSION_STATE_ESTABLISHED && proto >= COAP_PROTO_UDP && proto <= COAP_PROTO_WSS);
  ASSUME(nstart >= 1 && con_active <= nstart);          /* invariant: in-flight Confirmables never exceed NSTART */
  session->state = (coap_session_state_t)state; session->con_active = con_active; session->nstart = nstart; session->proto = (coap_proto_t)proto;
  session->sock.flags = sflags; session->type = (coap_session_type_t)stype;
  pdu->type = (coap_pdu_type_t)ptype;
  ssize_t r = coap_send_pdu(session, pdu, node);
  int con = ptype == COAP_MESSAGE_CON, unrel = COAP_PROTO_NOT_RELIABLE(proto);
  CHECK(G_sent + G_delayed <= 1, "coap_send_pdu either hands the message to the transport once, or delays it once, or refuses it");
  CHECK(!G_sent || state == COAP_SESSION_STATE_ESTABLISHED, "nothing is transmitted unless the session is ESTABLISHED (C19: not before the handshake completed)");
  CHECK(!G_sent || !con || con_active < nstart, "a Confirmable is transmitted only while fewer than NSTART are in flight");
  CHECK(session->con_active == con_active + ((G_sent && r >= 0 && con && unrel) ? 1 : 0), "con_active counts exactly the Confirmables successfully written on an unreliable transport");
  CHECK(session->con_active <= nstart, "con_active <= NSTART is preserved");
  CHECK(!G_delayed || (G_delayed_pdu == pdu && G_delayed_node == node), "a held message is queued as the same pdu/node");
  CHECK(!(state == COAP_SESSION_STATE_ESTABLISHED && !con && !((sflags & COAP_SOCKET_NOT_EMPTY) && (sflags & COAP_SOCKET_WANT_WRITE))) || G_sent == 1, "a Non-confirmable on an established, writable session is never delayed (not by NSTART either)");
  CHECK(!(con && con_active >= nstart && state == COAP_SESSION_STATE_ESTABLISHED && !((sflags & COAP_SOCKET_NOT_EMPTY) && (sflags & COAP_SOCKET_MULTICAST))) || G_delayed == 1, "a Confirmable beyond NSTART is held");
  MUSTFAIL(!G_sent, "send_reachable"); MUSTFAIL(!G_delayed, "delay_reachable"); MUSTFAIL(G_sent || G_delayed, "refuse_reachable");
#else
  coap_context_t *ctx = malloc(sizeof(*ctx)); coap_packet_t *packet = malloc(sizeof(*packet));
  ASSUME(packet != NULL);
  IN_SCALAR(uint8_t, proto); IN_SCALAR(uint8_t, stype); IN_SCALAR(_Bool, has_tls);
  session->proto = (coap_proto_t)proto; session->type = (coap_session_type_t)stype; session->tls = has_tls ? (void *)session : NULL;
  int r = coap_handle_dgram_for_proto(ctx, session, packet);
  CHECK(proto != COAP_PROTO_DTLS || G_plain == 0, "a datagram arriving on a DTLS session is never given to the clear-text CoAP path");
  CHECK(proto != COAP_PROTO_DTLS || (G_hello + G_dtlsrx <= 1 && (G_hello == (stype == COAP_SESSION_TYPE_HELLO)) && (G_dtlsrx == (stype != COAP_SESSION_TYPE_HELLO && has_tls))), "DTLS datagrams go to the ClientHello filter (HELLO sessions) or to the record layer (sessions with a TLS context) only");
  CHECK(proto != COAP_PROTO_UDP || (G_plain == 1 && G_hello + G_dtlsrx == 0), "UDP datagrams go to the CoAP path exactly once");
  CHECK(proto == COAP_PROTO_DTLS || proto == COAP_PROTO_UDP || (G_plain + G_hello + G_dtlsrx == 0 && r == -1), "other protocols are not handled as datagrams");
  MUSTFAIL(!G_plain, "plain_reachable"); MUSTFAIL(!G_dtlsrx, "dtls_reachable");
#endif
}
