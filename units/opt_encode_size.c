/* unit opt_encode_size (C01 P1) */
#include "coap3/coap_libcoap_build.h"
#include "spec/vin.h"
#include "spec/c_option.h"
#include "src/coap_option.c"
#include "stubs/base.h"
#include "stubs/mem_havoc.h"
void harness(void) {
  IN_SCALAR(uint16_t, delta);
  IN_SCALAR(size_t, length);
  ASSUME(length <= MAXOPTLEN);
  size_t r = coap_opt_encode_size(delta, length);
  CHECK(r == HDRSZ(delta, length) + length, "coap_opt_encode_size equals RFC header size plus value length");
  MUSTFAIL(r != 65804u + 5u, "max_reachable");
}
