/* unit ws_frame: the WebSocket frame reader coap_ws_read() on an established WebSocket (C02, C05): for every state of the
 * frame reader, every header byte and every chunk the lower layer delivers - no access outside the caller's buffer or
 * the 14-byte header store, the lower layer is never asked for more than fits the caller's buffer, an announced frame
 * size above the buffer closes (1009) instead of being buffered, a completed frame returns exactly its announced size. */
#include "coap3/coap_libcoap_build.h"
#include "spec/vin.h"
int G_close, G_lread, G_event; size_t G_lread_total;
const char *coap_session_str_contract(const coap_session_t *session) __CPROVER_requires(1) __CPROVER_assigns() __CPROVER_ensures(1);
static void coap_ws_log_header_contract(const coap_session_t *session, const uint8_t *header) __CPROVER_requires(1) __CPROVER_assigns() __CPROVER_ensures(1);
static void coap_ws_mask_data_contract(coap_session_t *session, uint8_t *data, size_t data_len)
__CPROVER_requires(__CPROVER_w_ok(data, data_len))
__CPROVER_assigns(__CPROVER_object_upto(data, data_len)) __CPROVER_ensures(1);
/* the HTTP handshake stage is not part of this unit (the harness starts from an established WebSocket) */
static int coap_ws_rd_http_header_contract(coap_session_t *session) __CPROVER_requires(0) __CPROVER_assigns() __CPROVER_ensures(1);
void coap_ws_close_contract(coap_session_t *session)
__CPROVER_requires(1) __CPROVER_assigns(G_close) __CPROVER_ensures(G_close == __CPROVER_old(G_close) + 1);
#include "src/coap_ws.c"
#include "stubs/base.h"
#include "stubs/time_prng.h"
#include "stubs/mem_havoc.h"
#ifndef WSBUF
#define WSBUF 32
#endif
#ifdef VERIF_NATIVE
static uint8_t *G_hdr_base, *G_buf_base;
static size_t G_room(const uint8_t *p) {
  if (p >= G_hdr_base && p <= G_hdr_base + COAP_MAX_FS) return (size_t)(G_hdr_base + COAP_MAX_FS - p);
  if (p >= G_buf_base && p <= G_buf_base + WSBUF) return (size_t)(G_buf_base + WSBUF - p);
  return 0;
}
#endif
/* lower layer: delivers any chunk up to the requested length with arbitrary bytes (named inputs, so that a counterexample
 * carries them); asserts that the requested range belongs to the header store or to the caller's buffer */
static ssize_t vh_lower_read(coap_session_t *session, uint8_t *data, size_t len) {
  (void)session;
#ifndef VERIF_NATIVE
  __CPROVER_assert(__CPROVER_w_ok(data, len), "the lower layer is only asked to fill memory that belongs to the header store or to the caller's buffer");
#else
  if (len > G_room(data)) { printf("REPLAY-FAIL: the lower layer is asked for %zu bytes but only %zu fit\n", len, G_room(data)); vin_fail_count++; return -1; }
#endif
  IN_SCALAR(ssize_t, lread); ASSUME(lread >= -1 && lread <= (ssize_t)len);
  IN_BYTES(lread_data, WSBUF);
  G_lread++;
  if (lread > 0) { for (size_t i = 0; i < WSBUF; i++) if (i < (size_t)lread) data[i] = lread_data.b[i]; G_lread_total += (size_t)lread; }
  return lread;
}
#ifndef VERIF_NATIVE
/* the HTTP handshake stage (ws->up == 0) is outside this unit; cbmc's builtin strlen/vsnprintf are loops that symex would
 * unwind without end on that (infeasible) path */
size_t nondet_strlen(void);
size_t strlen(const char *s) { (void)s; size_t n = nondet_strlen(); __CPROVER_assume(n < 250); return n; }
int snprintf(char *s, size_t n, const char *f, ...) { (void)f; __CPROVER_assert(__CPROVER_w_ok(s, n), "snprintf buffer writable"); if (n) __CPROVER_havoc_slice(s, n); return 0; }
#endif
#ifdef VERIF_NATIVE
static void vh_lower_close(coap_session_t *s) { (void)s; G_close++; }
#endif
int coap_handle_event_lkd(coap_context_t *c, coap_event_t e, coap_session_t *s) { (void)c; (void)e; (void)s; G_event++; return 0; }
void coap_session_disconnected_lkd(coap_session_t *s, coap_nack_reason_t r) { (void)s; (void)r; }
int coap_netif_available(coap_session_t *s) { (void)s; return 1; }
void harness(void) {
  /* automatic objects (not malloc): the may-fail malloc model makes every field read a case split, and ws->up would not
   * be a constant for symex, which then explores the HTTP handshake stage with its unbounded library string loops */
  static coap_session_t session_o; static coap_ws_state_t ws_o; static coap_context_t ctx_o;
  coap_session_t *session = &session_o; coap_ws_state_t *ws = &ws_o; coap_context_t *ctx = &ctx_o;
  IN_SCALAR(size_t, datalen); IN_SCALAR(_Bool, all_hdr_in); IN_SCALAR(int, hdr_ofs); IN_SCALAR(size_t, data_ofs); IN_SCALAR(size_t, data_size); IN_SCALAR(_Bool, server);
  ASSUME(datalen == WSBUF);       /* caller buffer of constant capacity (bounded: symbolic offsets into a symbolic-size object do not finish) */
  /* state invariant of the frame reader */
  if (all_hdr_in) ASSUME(data_size <= datalen && data_ofs <= data_size);
  else ASSUME(hdr_ofs >= 0 && hdr_ofs < COAP_MAX_FS);
  IN_BUF_FIXED(data, WSBUF);
  IN_BYTES(hdr_store, COAP_MAX_FS);            /* header bytes received by earlier calls */
  for (int i = 0; i < COAP_MAX_FS; i++) ws->rd_header[i] = hdr_store.b[i];
#ifdef VERIF_NATIVE
  G_hdr_base = ws->rd_header; G_buf_base = data;
#endif
  session->ws = ws; session->context = ctx; ws->up = 1; ws->all_hdr_in = all_hdr_in; ws->hdr_ofs = hdr_ofs; ws->data_ofs = data_ofs; ws->data_size = data_size;
  ws->state = server ? COAP_SESSION_TYPE_SERVER : COAP_SESSION_TYPE_CLIENT; ws->sent_close = 0; ws->recv_close = 0;
  coap_layer_read_t keep = vh_lower_read; (void)keep;
#ifdef VERIF_NATIVE
  /* natively the real coap_ws_close runs: keep it to its first branch (lower-layer close only, no select() on a socket) */
  session->state = COAP_SESSION_STATE_NONE; session->sock.lfunc[COAP_LAYER_WS].l_close = vh_lower_close;
#endif
  session->sock.lfunc[COAP_LAYER_WS].l_read = vh_lower_read;
  G_close = G_lread = G_event = 0; G_lread_total = 0;
  ssize_t r = coap_ws_read(session, data, datalen);
  CHECK(r >= -1 && (r <= 0 || (size_t)r <= datalen), "coap_ws_read returns an error, 0 (need more) or a frame size that fits the caller's buffer");
  CHECK(G_lread <= 2, "at most one read for the frame header and one for the data");
  CHECK(!(ws->all_hdr_in) || (ws->data_size <= datalen && ws->data_ofs <= ws->data_size), "reader invariant (inside a frame): the announced size fits the buffer and the fill level lies inside it");
  CHECK(ws->all_hdr_in || (ws->hdr_ofs >= 0 && ws->hdr_ofs <= COAP_MAX_FS), "reader invariant (inside a header): the header fill level lies inside the 14-byte header store");
  MUSTFAIL(!(G_close && !all_hdr_in), "close_reachable"); MUSTFAIL(!(r > 0 && !all_hdr_in), "frame_from_header_reachable"); MUSTFAIL(!(r > 0 && all_hdr_in), "frame_completed_reachable");
}
