/* unit error_response_b: coap_new_error_response (C10: what an error reply looks like; C18: allocation failure inside it).
 * Plain cbmc on harness pre/postconditions (no --dfcc), static objects.  The option iterator and accessors (own units: option_next,
 * opt_parse, opt_length, opt_value) are replaced by a scripted iterator over <= 2 options that records the filter it is started with;
 * the PDU builders (own units: add_token, add_option_p, add_data_after, alloc_pdu_init) by ghost-logging stubs that may fail. */
#include "coap3/coap_libcoap_build.h"
#include "spec/vin.h"
#include "spec/lock_ghost.h"
#include "spec/rfc7252_opt.h"
#include "src/coap_net.c"
#define coap_option_iterator_init real_coap_option_iterator_init
#define coap_option_next real_coap_option_next
#define coap_opt_length real_coap_opt_length
#define coap_opt_value real_coap_opt_value
#include "src/coap_option.c"
#undef coap_option_iterator_init
#undef coap_option_next
#undef coap_opt_length
#undef coap_opt_value
#include "src/coap_encode.c"
#include "src/coap_threadsafe.c"
#include "stubs/base.h"
#include "stubs/time_prng.h"
#include "stubs/mem_havoc.h"
#define SN 2
static coap_pdu_t resp_o; static uint8_t optbytes[SN][4]; static uint8_t valbytes[SN][4];
int G_sn, G_it, G_inits, G_filter_bad, G_init_fail, G_tok_fail, G_deleted, G_tok_calls, G_opt_calls, G_data_calls, G_order_bad;
uint16_t G_snum[SN]; uint16_t G_slen[SN]; size_t G_init_size; size_t G_tok_len; const uint8_t *G_tok_s; size_t G_data_len;
uint16_t G_add_num[SN]; size_t G_add_len[SN]; const uint8_t *G_add_val[SN];
_Bool nondet_fail(void);
/* diagnostic phrase: none, or a short text */
const char *coap_response_phrase(unsigned char code) { (void)code; static const char ph[4] = { 'B', 'a', 'd', 0 }; return nondet_fail() ? NULL : ph; }
coap_opt_iterator_t *coap_option_iterator_init(const coap_pdu_t *pdu, coap_opt_iterator_t *oi, const coap_opt_filter_t *filter) {
  (void)pdu; G_it = 0; G_inits++;
  /* the options that must never be echoed are masked out of the filter the iteration runs with */
  if (filter == COAP_OPT_ALL || coap_option_filter_get((coap_opt_filter_t *)filter, COAP_OPTION_CONTENT_FORMAT) > 0 ||
      coap_option_filter_get((coap_opt_filter_t *)filter, COAP_OPTION_HOP_LIMIT) > 0 || coap_option_filter_get((coap_opt_filter_t *)filter, COAP_OPTION_OSCORE) > 0) G_filter_bad = 1;
  return oi; }
coap_opt_t *coap_option_next(coap_opt_iterator_t *oi) { if (G_it < G_sn) { G_it++; oi->number = G_snum[G_it - 1]; return optbytes[G_it - 1]; } return NULL; }
uint32_t coap_opt_length(const coap_opt_t *opt) { return opt == optbytes[0] ? G_slen[0] : G_slen[1]; }
const uint8_t *coap_opt_value(const coap_opt_t *opt) { return opt == optbytes[0] ? valbytes[0] : valbytes[1]; }
coap_pdu_t *coap_pdu_init(coap_pdu_type_t type, coap_pdu_code_t code, coap_mid_t mid, size_t size) {
  G_init_size = size; if (nondet_fail()) { G_init_fail = 1; return NULL; }
  resp_o.type = type; resp_o.code = code; resp_o.mid = mid; return &resp_o; }
void coap_delete_pdu(coap_pdu_t *p) { if (p == &resp_o) G_deleted++; }
int coap_add_token(coap_pdu_t *pdu, size_t len, const uint8_t *data) { (void)pdu; G_tok_calls++; G_tok_len = len; G_tok_s = data; if (nondet_fail()) { G_tok_fail = 1; return 0; } return 1; }
size_t coap_add_option_internal(coap_pdu_t *pdu, coap_option_num_t number, size_t len, const uint8_t *data) {
  (void)pdu; if (G_opt_calls < SN) { G_add_num[G_opt_calls] = number; G_add_len[G_opt_calls] = len; G_add_val[G_opt_calls] = data; } if (G_data_calls) G_order_bad = 1; G_opt_calls++; return len + 1; }
int coap_add_data(coap_pdu_t *pdu, size_t len, const uint8_t *data) { (void)pdu; (void)data; G_data_calls++; G_data_len = len; return 1; }
void harness(void) {
  static coap_pdu_t req_o; coap_pdu_t *req = &req_o; static uint8_t tok[8];
  IN_SCALAR(uint8_t, rtype); IN_SCALAR(uint8_t, code); IN_SCALAR(uint16_t, mid); IN_SCALAR(uint8_t, tkl); IN_SCALAR(uint8_t, sn); IN_SCALAR(uint16_t, on0); IN_SCALAR(uint16_t, on1); IN_SCALAR(uint16_t, ol0); IN_SCALAR(uint16_t, ol1); IN_SCALAR(uint8_t, nib0); IN_SCALAR(uint8_t, nib1);
  ASSUME(rtype <= 3 && tkl <= 8 && sn <= SN && on0 <= on1 && ol0 <= 300 && ol1 <= 300);
  /* the low nibble of an option's first byte is the RFC 7252 length nibble of its length */
  ASSUME((nib0 & 15) == (ol0 < 13 ? ol0 : ol0 < 269 ? 13 : 14) && (nib1 & 15) == (ol1 < 13 ? ol1 : ol1 < 269 ? 13 : 14));
  optbytes[0][0] = nib0; optbytes[1][0] = nib1;
  req->type = (coap_pdu_type_t)rtype; req->mid = mid; req->actual_token.length = tkl; req->actual_token.s = tok; req->e_token_length = tkl;
  G_sn = sn; G_snum[0] = on0; G_snum[1] = on1; G_slen[0] = ol0; G_slen[1] = ol1;
  G_inits = G_filter_bad = G_init_fail = G_tok_fail = G_deleted = G_tok_calls = G_opt_calls = G_data_calls = G_order_bad = 0;
  coap_opt_filter_t opts; coap_option_filter_clear(&opts);
  IN_SCALAR(_Bool, f_cf); IN_SCALAR(_Bool, f_hl); IN_SCALAR(_Bool, f_osc); IN_SCALAR(_Bool, f_x);
  if (f_cf) coap_option_filter_set(&opts, COAP_OPTION_CONTENT_FORMAT); if (f_hl) coap_option_filter_set(&opts, COAP_OPTION_HOP_LIMIT);
  if (f_osc) coap_option_filter_set(&opts, COAP_OPTION_OSCORE); if (f_x) coap_option_filter_set(&opts, 65001);
  coap_pdu_t *r = coap_new_error_response(req, (coap_pdu_code_t)code, &opts);
  /* space the reply needs: token + RFC 7252 encoding of every copied option (delta relative to the previously copied one) */
  size_t need = tkl; uint32_t prev = 0;
  if (sn >= 1) { need += HDRSZ(on0 - prev, ol0) + ol0; prev = on0; }
  if (sn >= 2) { need += HDRSZ(on1 - prev, ol1) + ol1; }
  /* (plus the diagnostic payload, when there is one) */
  CHECK(G_filter_bad == 0 && G_inits >= 1, "Content-Format, Hop-Limit and OSCORE are never echoed: they are masked out of the filter every iteration over the request's options runs with");
  CHECK(G_init_size >= need, "the reply is created with room for the token and every copied option in its RFC 7252 encoding");
  CHECK((r == NULL) == (G_init_fail || G_tok_fail), "an error reply is produced unless the PDU or its token could not be allocated");
  CHECK(r != NULL || G_deleted == (G_init_fail ? 0 : 1), "on failure the partly built reply is released exactly once (nothing leaks)");
  CHECK(r == NULL || (r == &resp_o && G_deleted == 0), "a returned reply is the one that was built and it is still alive");
  CHECK(r == NULL || (r->type == (rtype == COAP_MESSAGE_CON ? COAP_MESSAGE_ACK : COAP_MESSAGE_NON) && r->code == code && r->mid == mid), "the error reply to a Confirmable request is a piggy-backed ACK, otherwise Non-confirmable, with the request's message id and the given code");
  CHECK(r == NULL || (G_tok_calls == 1 && G_tok_len == tkl && G_tok_s == tok), "the reply echoes the request's token");
  CHECK(r == NULL || (G_opt_calls == sn && !G_order_bad), "every option selected by the filter is copied exactly once, before the diagnostic payload");
  for (int i = 0; i < SN; i++) if (r != NULL && i < sn) CHECK(G_add_num[i] == G_snum[i] && G_add_len[i] == G_slen[i] && G_add_val[i] == valbytes[i], "a copied option keeps its number, length and value, in the request's order");
  MUSTFAIL(!(r != NULL && sn == 2 && ol1 >= 269), "two_options_reachable"); MUSTFAIL(!(r == NULL && G_tok_fail), "token_failure_reachable");
}
