/* units insert_option_b2 / remove_option_b2 / update_option_b2 (-DWHICH=1,2,3): SHAPE pre/postconditions of the three in-place option
 * editors coap_insert_option / coap_remove_option / coap_update_option (C04, C01) on the real code, bounded tier.
 *
 * - plain cbmc on the harness (no goto-instrument --dfcc: its write-set instrumentation of every assignment made these very
 *   units run out of memory, DESIGN 9.2); the precondition is assumed and the postcondition asserted by the harness, callee
 *   preconditions are the assertions of the mem* stubs.
 * - the option iterator (coap_option_iterator_init / coap_option_next / coap_check_option, proved separately: units option_next,
 *   opt_parse) is replaced by a scripted iterator that enumerates the <= 3 well-formed options the harness laid out, at offsets that
 *   stay valid across realloc - an ASSUMED composition, listed as such.  coap_opt_parse, coap_opt_encode, coap_opt_setheader,
 *   coap_pdu_check_resize, coap_pdu_resize are the real bodies.
 * - the layout is pinned by compile-time parameters (variants): J = index of the edited option / of the follower an option is inserted
 *   before (0 or 1; a predecessor has the pinned size PRE), RSZ = size of the removed option, HASF = a follower exists - so that every
 *   option offset is a constant for cbmc (with symbolic offsets no variant finished in 25 min); deltas, value lengths, header forms
 *   within those sizes, the tail behind the scripted options, payload, sizes and allocator failures stay symbolic.
 * - every object has constant capacity BLK (message block, value buffer, what realloc returns); header space 6 bytes and an empty
 *   token (the editors never look at either); option sizes, deltas, numbers, value lengths, payload presence, sizes, allocator
 *   failures are symbolic.  mem* = asserted ranges + arbitrary bytes (where and how much, not which bytes). */
#include "coap3/coap_libcoap_build.h"
#include "spec/vin.h"
#ifndef BLK
#define BLK 70
#endif
#define PDU_MAXA (BLK - 6)
#define PDU_FIXED_BLOCK BLK
#define VH_PDU_FIX max_hdr_size = 6; tok_len = 0
#include "spec/c_option.h"
#include "spec/pdu_wf.h"
#define SN 3
const coap_pdu_t *G_pdu; int G_it, G_sn; size_t G_soff[SN]; uint16_t G_snum[SN];
#include "src/coap_pdu.c"
#define coap_option_iterator_init real_coap_option_iterator_init
#define coap_option_next real_coap_option_next
#define coap_check_option real_coap_check_option
#include "src/coap_option.c"
#undef coap_option_iterator_init
#undef coap_option_next
#undef coap_check_option
#include "src/coap_encode.c"
#ifndef VERIF_NATIVE
coap_opt_iterator_t *coap_option_iterator_init(const coap_pdu_t *pdu, coap_opt_iterator_t *oi, const coap_opt_filter_t *filter) {
  __CPROVER_assert(pdu == G_pdu && filter == COAP_OPT_ALL, "the editors iterate over all options of their own message"); G_it = 0; return oi; }
coap_opt_t *coap_option_next(coap_opt_iterator_t *oi) {
  if (G_it < G_sn) { G_it++; oi->number = G_snum[G_it - 1]; return G_pdu->token + G_soff[G_it - 1]; }
  return NULL; }
coap_opt_t *coap_check_option(const coap_pdu_t *pdu, coap_option_num_t number, coap_opt_iterator_t *oi) {
  (void)oi; for (int i = 0; i < SN; i++) if (i < G_sn && G_snum[i] == number) return pdu->token + G_soff[i];   /* the FIRST option with that number */
  return NULL; }
#endif
#define ALLOC_CAP BLK
#include "stubs/alloc_bounded.h"
#define MEMCAP BLK
/* hook: what the source of the last memmove starts with at call time (the editors re-encode the follower's header in place
 * and THEN move it together with the tail; with mem* = arbitrary bytes the moved header is not visible afterwards) */
int G_mm_calls, G_mm_wf, G_mm_decode; uint32_t G_mm_delta, G_mm_len; const uint8_t *G_mm_src; uint8_t *G_mm_dst; size_t G_mm_n;
#define VH_MEMMOVE_HOOK(d, s, n) do { G_mm_calls++; G_mm_src = (const uint8_t *)(s); G_mm_dst = (uint8_t *)(d); G_mm_n = (n); \
  G_mm_wf = G_mm_decode && (n) > 0 && WELLFORMED((const uint8_t *)(s), (n)); if (G_mm_wf) { G_mm_delta = DELTA((const uint8_t *)(s)); G_mm_len = LENV((const uint8_t *)(s)); } } while (0)
#include "stubs/mem_havoc_fixed.h"
void harness(void) {
  HARNESS_PDU(pdu);
  ASSUME(max_size != 0);
  pdu->hdr_size = 0; pdu->session = NULL;
  IN_SCALAR(uint16_t, number); IN_SCALAR(size_t, len); IN_SCALAR(size_t, g);
  ASSUME(len <= BLK);
  IN_BUF_FIXED(val, BLK);
#ifndef J
#define J 0
#endif
#ifndef PRE
#define PRE 3
#endif
#ifndef RSZ
#define RSZ 3
#endif
#ifndef HASF
#define HASF 1
#endif
  const size_t opt_end = data_off ? data_off - 1 : used_size;
  uint8_t *const tk = pdu->token;
  uint32_t num = 0; int sn = 0;
#if J == 1
  /* predecessor: any well-formed option of PRE bytes */
  ASSUME(PRE < opt_end && WELLFORMED(tk, opt_end) && HDR(tk) + LENV(tk) == PRE);
  G_soff[0] = 0; num = DELTA(tk); G_snum[0] = (uint16_t)num; sn = 1;
#endif
  const uint32_t prevnum = num;
  const size_t po = J * PRE;                       /* constant offset of the option the edit is about */
  ASSUME(po < opt_end && WELLFORMED(tk + po, opt_end - po));
  const uint32_t d_this = DELTA(tk + po); const size_t l_this = LENV(tk + po), sz_this = HDR(tk + po) + l_this;
  num += d_this; ASSUME(num <= 65535); G_soff[sn] = po; G_snum[sn] = (uint16_t)num; sn++;
  const uint32_t num_this = num;
  ASSUME(!data_off || tk[opt_end] == 0xFF);
  ASSUME(g < used_size);
  const uint8_t old_g = tk[g]; const size_t old_etkl = pdu->e_token_length;
  G_pdu = pdu; G_it = 0; G_mm_calls = 0; G_mm_wf = 0; G_mm_decode = (WHICH != 3);   /* the follower matters to insert / remove only */
#if WHICH == 1
  /* insert `number` before the option at po (the follower); behind the follower: arbitrary well-formed rest (not looked at) */
  ASSUME(po + sz_this <= opt_end && max_opt >= num_this && number >= prevnum && number < num_this);
  G_sn = sn;
  size_t r = coap_insert_option(pdu, number, len, val);
  const size_t newsz = HDRSZ(number - prevnum, len) + len;
  const size_t shrink = EXTSZ(d_this) - EXTSZ(num_this - number);
  CHECK(r == 0 || r == newsz, "coap_insert_option returns the encoded size of the inserted option");
  CHECK(!r || (pdu->used_size == used_size + newsz - shrink && pdu->used_size <= pdu->alloc_size && pdu->alloc_size <= pdu->max_size), "coap_insert_option: the message grows by the new option minus the header bytes the follower no longer needs");
  CHECK(!r || (data_off ? (pdu->data != NULL && (size_t)(pdu->data - pdu->token) == data_off + newsz - shrink) : pdu->data == NULL), "coap_insert_option: the payload moves by the same amount");
  CHECK(!r || (pdu->max_opt == max_opt && pdu->e_token_length == old_etkl), "coap_insert_option keeps the token and the highest option number");
  CHECK(!r || (DELTA(pdu->token + po) == number - prevnum && LENV(pdu->token + po) == len && HDR(pdu->token + po) == HDRSZ(number - prevnum, len)), "the inserted option sits where the follower was and decodes to delta = number - previous number and the given length");
  CHECK(!r || (G_mm_calls == 1 && G_mm_wf && G_mm_delta == num_this - number && G_mm_len == l_this && G_mm_dst == pdu->token + po + newsz && G_mm_n == used_size - po - shrink),
        "the follower is re-encoded relative to the inserted option (same absolute number, same length) and moved with the whole tail to directly behind the inserted option");
  CHECK(r || (pdu->used_size == used_size && pdu->token[g] == old_g && (data_off ? (size_t)(pdu->data - pdu->token) == data_off : pdu->data == NULL)), "coap_insert_option: a refused insertion disturbs neither sizes nor any byte of the message already present");
  MUSTFAIL(!(r && shrink == 1), "follower_shrinks_reachable"); MUSTFAIL(r, "refusal_reachable"); MUSTFAIL(!(r && data_off), "with_payload_reachable");
#elif WHICH == 2
  /* remove the option at po (size RSZ); HASF: a follower sits directly behind it, behind that an arbitrary rest */
  ASSUME(sz_this == RSZ);
  number = (uint16_t)num_this;
#if J == 1
  ASSUME(G_snum[0] != number);       /* the iterator finds the first option with the number: that is the one at po */
#endif
#if HASF
  const size_t fo = po + RSZ;
  ASSUME(fo < opt_end && WELLFORMED(tk + fo, opt_end - fo));
  const uint32_t d_next = DELTA(tk + fo); const size_t l_next = LENV(tk + fo), sz_next = HDR(tk + fo) + l_next;
  ASSUME(num_this + d_next <= 65535 && max_opt >= num_this + d_next);
  G_soff[sn] = fo; G_snum[sn] = (uint16_t)(num_this + d_next); sn++;
#else
  ASSUME(po + RSZ == opt_end && max_opt == num_this);
#endif
  G_sn = sn;
  int r = coap_remove_option(pdu, number);
  CHECK(r == 1, "coap_remove_option removes an option that exists");
#if HASF
  const size_t grow = EXTSZ(d_this + d_next) - EXTSZ(d_next);
  CHECK(pdu->used_size == used_size - RSZ + grow && pdu->used_size <= pdu->alloc_size, "coap_remove_option: the message shrinks by the removed option minus the header bytes the follower needs in addition");
  CHECK(data_off ? (pdu->data != NULL && (size_t)(pdu->data - pdu->token) == data_off - RSZ + grow) : pdu->data == NULL, "coap_remove_option: the payload moves by the same amount");
  CHECK(pdu->max_opt == max_opt && pdu->e_token_length == old_etkl, "coap_remove_option: max_opt changes only when the last option goes away");
  CHECK(G_mm_calls >= 1 && G_mm_wf && G_mm_delta == d_this + d_next && G_mm_len == l_next && G_mm_dst == pdu->token + po && G_mm_n == pdu->used_size - po,
        "the follower is re-encoded relative to the predecessor (same absolute number, same length) and moved with the whole tail into the removed option's place");
#else
  CHECK(pdu->used_size == used_size - RSZ && (data_off ? (pdu->data != NULL && (size_t)(pdu->data - pdu->token) == data_off - RSZ) : pdu->data == NULL), "coap_remove_option: removing the last option shrinks the message by its size; the payload follows");
  CHECK(pdu->max_opt == prevnum && pdu->e_token_length == old_etkl, "coap_remove_option: removing the last option lowers max_opt to the predecessor's number");
#endif
  CHECK(g >= po || pdu->token[g] == old_g, "coap_remove_option leaves every byte before the removed option alone");
  MUSTFAIL(!(r && data_off), "with_payload_reachable");
#else
  /* update the option at po; behind it: arbitrary rest */
  ASSUME(po + sz_this <= opt_end && max_opt >= num_this);
  number = (uint16_t)num_this;
#if J == 1
  ASSUME(G_snum[0] != number);
#endif
  G_sn = sn;
  size_t r = coap_update_option(pdu, number, len, val);
  const size_t oldsz = sz_this, newsz = HDRSZ(d_this, len) + len;
  CHECK(r == 0 || r == 1, "coap_update_option returns 0 or 1");
  CHECK(!r || (pdu->used_size == used_size - oldsz + newsz && pdu->used_size <= pdu->alloc_size && pdu->alloc_size <= pdu->max_size), "coap_update_option: the message grows/shrinks by exactly the difference of the encoded sizes of the named option (header extension bytes included)");
  CHECK(!r || (data_off ? (pdu->data != NULL && (size_t)(pdu->data - pdu->token) == data_off - oldsz + newsz) : pdu->data == NULL), "coap_update_option: the payload moves by the same amount");
  CHECK(!r || (pdu->max_opt == max_opt && pdu->e_token_length == old_etkl), "coap_update_option keeps the token and the highest option number");
  CHECK(!r || (DELTA(pdu->token + po) == d_this && LENV(pdu->token + po) == len && HDR(pdu->token + po) == HDRSZ(d_this, len)), "coap_update_option: the option keeps its delta (number) and carries the new length, at the same position");
  CHECK(!r || newsz == oldsz || (G_mm_calls == 1 && G_mm_src == pdu->token + po + oldsz && G_mm_dst == pdu->token + po + newsz && G_mm_n == used_size - po - oldsz), "everything behind the option is moved as one block to directly behind the rewritten option");
  CHECK(r || (pdu->used_size == used_size && pdu->token[g] == old_g && (data_off ? (size_t)(pdu->data - pdu->token) == data_off : pdu->data == NULL)), "coap_update_option: a refused update disturbs neither sizes nor any byte of the message");
  CHECK(!r || g >= po || pdu->token[g] == old_g, "coap_update_option leaves every byte before the option alone");
  MUSTFAIL(!(r && newsz > oldsz + 1 && data_off), "grow_across_threshold_reachable"); MUSTFAIL(!(r && newsz + 1 < oldsz), "shrink_reachable"); MUSTFAIL(r, "refusal_reachable");
#endif
}
