/* unit read_session: the TCP/TLS stream reader of coap_read_session (C05) as an inductive step over arbitrary reads.
 * COAP_RXBUFFER_SIZE (an #ifndef-guarded configuration macro) is set to RXSZ (3) for this unit: every inner iteration consumes
 * at least one byte, so unwinding the inner loop RXSZ times is exhaustive for that read size, while the session state at
 * entry is ARBITRARY under the reader's state invariant - the contract is an inductive step that composes over any
 * number of reads, with every cut position inside the longest header (6 + 2 bytes).  Bounded by: read size RXSZ.
 * Ghost byte accounting: G_in = bytes delivered by the transport, G_done = sizes of the messages completed. */
#ifndef RXSZ
#define RXSZ 3
#endif
#define COAP_RXBUFFER_SIZE RXSZ
#ifndef RCVMAX
#define RCVMAX 64   /* largest message the session accepts in this unit (larger declarations must disconnect) */
#endif
#include "coap3/coap_libcoap_build.h"
#include "spec/vin.h"
#include "spec/tcp_len.h"
size_t G_in, G_done; int G_reads, G_completed, G_dispatch, G_disc, G_created;
const char *coap_session_str_contract(const coap_session_t *session) __CPROVER_requires(1) __CPROVER_assigns() __CPROVER_ensures(1);
int coap_pdu_parse_header_contract(coap_pdu_t *pdu, coap_proto_t proto)
__CPROVER_requires(__CPROVER_r_ok(pdu, sizeof(*pdu)))
__CPROVER_assigns(G_done, G_completed)
__CPROVER_ensures(G_completed == __CPROVER_old(G_completed) + 1 && G_done == __CPROVER_old(G_done) + pdu->hdr_size + pdu->used_size)
;
int coap_pdu_parse_opt_contract(coap_pdu_t *pdu) __CPROVER_requires(1) __CPROVER_assigns() __CPROVER_ensures(1);
void coap_dispatch_contract(coap_context_t *context, coap_session_t *session, coap_pdu_t *pdu)
__CPROVER_requires(pdu == session->partial_pdu)
__CPROVER_assigns(G_dispatch) __CPROVER_ensures(G_dispatch == __CPROVER_old(G_dispatch) + 1);
#include "src/coap_net.c"
#include "src/coap_pdu.c"
#include "src/coap_encode.c"
#include "stubs/base.h"
#include "stubs/time_prng.h"
#include "stubs/mem_havoc.h"
#ifndef VERIF_NATIVE
ssize_t nondet_nread(void); size_t nondet_rcvsize(void);
static ssize_t vh_read(coap_session_t *session, uint8_t *data, size_t len) {
  (void)session;
  __CPROVER_assert(__CPROVER_w_ok(data, len), "the read buffer given to the transport is writable for its length");
  ssize_t n = nondet_nread();
  __CPROVER_assume(n >= -1 && n <= (ssize_t)len);
  if (G_reads >= 1) __CPROVER_assume(n < (ssize_t)len);            /* the second read of the retry loop is a short one */
  G_reads++;
  if (n > 0) { __CPROVER_havoc_slice(data, (size_t)n); G_in += (size_t)n; }
  return n;
}
void coap_session_disconnected_lkd(coap_session_t *s, coap_nack_reason_t r) { (void)s; (void)r; G_disc++; }
size_t coap_session_max_pdu_rcv_size(const coap_session_t *s) { (void)s; size_t v = nondet_rcvsize(); __CPROVER_assume(v >= 16 && v <= RCVMAX); return v; }
#endif
#define TOKX(b0) TKL_EXT(TKL_NIB(&(b0)))
void harness(void) {
  coap_context_t *ctx = malloc(sizeof(*ctx)); coap_session_t *session = malloc(sizeof(*session)); ASSUME(ctx && session);
  IN_SCALAR(uint8_t, state_kind);            /* 0: between messages, 1: inside a header, 2: inside a body */
  IN_SCALAR(size_t, pr); IN_SCALAR(uint8_t, rh0); IN_SCALAR(size_t, used); IN_SCALAR(size_t, alloc); IN_SCALAR(uint8_t, h);
  ASSUME(state_kind <= 2);
  session->proto = COAP_PROTO_TCP; session->context = ctx;
  coap_layer_read_t keep = vh_read; (void)keep;
  session->sock.lfunc[COAP_LAYER_SESSION].l_read = vh_read; session->sock.flags = COAP_SOCKET_CONNECTED;
  session->read_header[0] = rh0;
  size_t hdr0 = TCP_HDRSZ(&rh0) + TOKX(rh0);
  coap_pdu_t *pp = NULL;
  if (state_kind == 0) { pr = 0; session->partial_pdu = NULL; }
  else if (state_kind == 1) { ASSUME(pr >= 1 && pr < hdr0); session->partial_pdu = NULL; }
  else {
    ASSUME((h == 2 || h == 3 || h == 4 || h == 6) && used >= 1 && used <= alloc && alloc <= RCVMAX && pr >= h && pr < h + used);
    pp = malloc(sizeof(*pp)); uint8_t *blk = malloc(6 + alloc); ASSUME(pp && blk);
    pp->max_hdr_size = 6; pp->hdr_size = h; pp->token = blk + 6; pp->alloc_size = alloc; pp->used_size = used; pp->max_size = 0; pp->data = NULL; pp->actual_token.length = 0; pp->e_token_length = 0;
    session->partial_pdu = pp;
  }
  session->partial_read = pr;
  G_in = G_done = 0; G_reads = G_completed = G_dispatch = G_disc = 0;
  coap_tick_t now = 0;
  coap_read_session(ctx, session, now);
  /* ---- postcondition */
  CHECK(G_disc <= 1 && G_dispatch <= G_completed, "at most one disconnect; only completed messages are dispatched");
  CHECK(G_disc || G_in + pr == G_done + session->partial_read, "byte accounting: bytes received + bytes buffered before = bytes of completed messages + bytes buffered now (nothing forgotten, nothing counted twice, wherever the read was cut)");
  CHECK(G_disc || session->partial_pdu == NULL || (session->partial_read >= session->partial_pdu->hdr_size && session->partial_read < (size_t)session->partial_pdu->hdr_size + session->partial_pdu->used_size && session->partial_pdu->used_size <= session->partial_pdu->alloc_size && session->partial_pdu->used_size <= COAP_DEFAULT_MAX_PDU_RX_SIZE), "reader invariant (inside a body): the buffered count lies inside the announced message, which fits its buffer and the configured maximum");
  CHECK(G_disc || session->partial_pdu != NULL || session->partial_read == 0 || session->partial_read < TCP_HDRSZ(session->read_header) + TKL_EXT(TKL_NIB(session->read_header)), "reader invariant (inside a header): fewer bytes buffered than the header announces");
  MUSTFAIL(!(G_completed == 2), "two_messages_in_one_read_reachable"); MUSTFAIL(!(state_kind == 1 && !G_disc && session->partial_pdu == NULL && session->partial_read > pr), "short_read_inside_header_reachable");
  MUSTFAIL(!G_disc, "disconnect_reachable"); MUSTFAIL(!(state_kind == 1 && session->partial_pdu != NULL), "header_completed_reachable");
}
