/* units session_connected_b / session_delay_b (bounded tier, -DWHICH=1,2): the per-session delay queue (C08, C19).
 * Bounded: the queue holds at most 3 entries (list structure built by the harness), everything else symbolic. */
#include "coap3/coap_libcoap_build.h"
#include "spec/vin.h"
/* coap_session_str() only feeds log messages (logging is a no-op stub): replaced by "returns some pointer, no effect" */
const char *coap_session_str_contract(const coap_session_t *session)
__CPROVER_requires(1)
__CPROVER_assigns()
__CPROVER_ensures(1)
;
#include "src/coap_session.c"
#include "stubs/base.h"
#include "stubs/time_prng.h"
#include "stubs/mem_havoc.h"
#define QN 3
#ifndef VERIF_NATIVE
/* ghost log of what reaches the transport, the retransmission queue and the node destructor */
int G_nsent; coap_pdu_t *G_sent_pdu[QN + 1]; int G_nwait; coap_queue_t *G_wait_node[QN + 1]; int G_wait_res[QN + 1];
int G_ndel; coap_queue_t *G_del_node[QN + 1]; int G_events;
ssize_t nondet_written(void); int nondet_mid(void); unsigned nondet_overhead(void); unsigned nondet_timeout(void);
ssize_t coap_session_send_pdu(coap_session_t *s, coap_pdu_t *pdu) { (void)s; if (G_nsent < QN + 1) G_sent_pdu[G_nsent] = pdu; G_nsent++; return nondet_written(); }
coap_mid_t coap_wait_ack(coap_context_t *c, coap_session_t *s, coap_queue_t *node) {
  (void)c; (void)s; int written = nondet_mid(); __CPROVER_assume(written >= -1 && written <= 65535);
  if (G_nwait < QN + 1) { G_wait_node[G_nwait] = node; G_wait_res[G_nwait] = written; } G_nwait++; return written; }
int coap_delete_node_lkd(coap_queue_t *node) { if (G_ndel < QN + 1) G_del_node[G_ndel] = node; G_ndel++; return 1; }
int coap_handle_event_lkd(coap_context_t *c, coap_event_t e, coap_session_t *s) { (void)c; (void)e; (void)s; G_events++; return 0; }
unsigned int coap_dtls_get_overhead(coap_session_t *s) { (void)s; return nondet_overhead(); }
coap_queue_t *coap_new_node(void) { coap_queue_t *n = coap_malloc_type(COAP_NODE, sizeof(coap_queue_t)); if (n) { n->next = NULL; } return n; }
unsigned int coap_calc_timeout(coap_session_t *s, unsigned char r) { (void)s; (void)r; return nondet_timeout(); }
int coap_prng_lkd(void *buf, size_t len) { __CPROVER_assert(__CPROVER_w_ok(buf, len), "prng buffer writable"); __CPROVER_havoc_slice(buf, len); return 1; }
int coap_remove_from_queue(coap_queue_t **queue, coap_session_t *session, coap_mid_t id, coap_queue_t **node) { (void)queue; (void)session; (void)id; *node = NULL; return 0; }
#endif
void harness(void) {
  coap_session_t *session = malloc(sizeof(*session)); coap_context_t *ctx = malloc(sizeof(*ctx));
  ASSUME(session != NULL && ctx != NULL);
  session->context = ctx;
  IN_SCALAR(uint8_t, n); IN_SCALAR(uint8_t, state); IN_SCALAR(uint8_t, proto); IN_SCALAR(uint8_t, con_active); IN_SCALAR(uint8_t, nstart);
  IN_SCALAR(uint8_t, t0); IN_SCALAR(uint8_t, t1); IN_SCALAR(uint8_t, t2); IN_SCALAR(uint16_t, m0); IN_SCALAR(uint16_t, m1); IN_SCALAR(uint16_t, m2);
  ASSUME(n <= QN && t0 <= 3 && t1 <= 3 && t2 <= 3 && nstart >= 1 && con_active <= nstart);
  ASSUME(proto >= COAP_PROTO_UDP && proto <= COAP_PROTO_WSS && state <= COAP_SESSION_STATE_ESTABLISHED);
  coap_queue_t q[QN]; coap_pdu_t p[QN];
  const uint8_t ty[QN] = { t0, t1, t2 }; const uint16_t mid[QN] = { m0, m1, m2 };
  for (int i = 0; i < QN; i++) { q[i].next = (i + 1 < n) ? &q[i + 1] : NULL; q[i].pdu = &p[i]; q[i].id = mid[i]; p[i].type = (coap_pdu_type_t)ty[i]; p[i].mid = mid[i]; p[i].used_size = 4; p[i].hdr_size = 4; q[i].session = session; }
  session->delayqueue = n ? &q[0] : NULL; session->state = (coap_session_state_t)state; session->proto = (coap_proto_t)proto;
  session->con_active = con_active; session->nstart = nstart; session->doing_first = 0; session->mtu = 1152;
  G_nsent = 0; G_nwait = 0; G_ndel = 0; G_events = 0;
  int unrel = COAP_PROTO_NOT_RELIABLE(proto);
#if WHICH == 1
  coap_session_connected(session);
  CHECK(G_nsent <= n, "coap_session_connected transmits each held message at most once");
  for (int i = 0; i < QN; i++) if (i < G_nsent) CHECK(G_sent_pdu[i] == &p[i], "held messages are transmitted in submission order (the i-th transmission is the i-th queue entry)");
  CHECK(session->con_active <= nstart, "draining the delay queue keeps con_active <= NSTART");
  /* what remains queued is exactly the untransmitted suffix (a partially written stream message stays at the head) */
  CHECK(session->delayqueue == (G_nsent < n ? &q[G_nsent] : NULL) || (!unrel && G_nsent >= 1 && session->delayqueue == &q[G_nsent - 1]), "the queue afterwards is the untransmitted suffix: nothing is lost or re-ordered");
  /* a Confirmable handed to the retransmission queue (coap_wait_ack accepted it) is not destroyed */
  for (int i = 0; i < QN; i++) for (int j = 0; j < QN; j++) if (i < G_nwait && j < G_ndel) CHECK(!(G_wait_res[i] >= 0 && G_del_node[j] == G_wait_node[i]), "a node accepted by the retransmission queue is not deleted (for every message id, 0 included)");
  /* the drain stops at a Confirmable only because NSTART is exhausted */
  CHECK(!(unrel && G_nsent < n && G_nsent >= 0 && session->state == COAP_SESSION_STATE_ESTABLISHED && G_nsent == 0 && ty[0] != COAP_MESSAGE_CON) , "a held Non-confirmable at the head is not blocked by NSTART");
  MUSTFAIL(!(G_nsent == 3), "drain_three_reachable"); MUSTFAIL(!(G_nsent == 1 && n == 3 && unrel), "nstart_stop_reachable");
#else
  coap_pdu_t *pdu = malloc(sizeof(*pdu)); ASSUME(pdu != NULL);
  IN_SCALAR(uint8_t, nt); IN_SCALAR(uint16_t, nm); ASSUME(nt <= 3);
  pdu->type = (coap_pdu_type_t)nt; pdu->mid = nm;
  ssize_t r = coap_session_delay_pdu(session, pdu, NULL);
  int dup = unrel && ((n > 0 && m0 == nm) || (n > 1 && m1 == nm) || (n > 2 && m2 == nm));
  CHECK(!dup || (r == COAP_INVALID_MID && session->delayqueue == (n ? &q[0] : NULL)), "a message whose id is already held on a datagram session is refused and the queue is unchanged");
  CHECK(r != COAP_PDU_DELAYED || (n == 0 ? (session->delayqueue != NULL && session->delayqueue->pdu == pdu && session->delayqueue->next == NULL)
                                          : (session->delayqueue == &q[0] && q[n - 1].next != NULL && q[n - 1].next->pdu == pdu && q[n - 1].next->next == NULL && q[n - 1].next->id == nm)), "a held message is appended at the tail (submission order is kept)");
  CHECK(r == COAP_PDU_DELAYED || r == COAP_INVALID_MID, "coap_session_delay_pdu returns DELAYED or INVALID_MID");
  CHECK(r == COAP_PDU_DELAYED || session->delayqueue == (n ? &q[0] : NULL), "refusal leaves the queue unchanged");
  MUSTFAIL(!(r == COAP_PDU_DELAYED && n == 3), "append_fourth_reachable"); MUSTFAIL(!dup, "dup_reachable");
#endif
}
