/* units rblock_update / rblock_check (-DWHICH=1,2): received-block bookkeeping of block-wise transfers (C09).
 * Loops are bounded by COAP_RBLOCK_CNT (a constant of the code), memmove by sizeof(range[]): unwinding with
 * unwinding assertions is complete here, block numbers and totals are fully symbolic. */
#include "coap3/coap_libcoap_build.h"
#include "spec/vin.h"
#include "spec/c_block.h"
#include "src/coap_block.c"
#include "stubs/base.h"
#include "stubs/time_prng.h"
#include "stubs/mem_loops.h"
void harness(void) {
  IN_SCALAR(uint32_t, used);
  IN_SCALAR(uint32_t, b0); IN_SCALAR(uint32_t, e0); IN_SCALAR(uint32_t, b1); IN_SCALAR(uint32_t, e1);
  IN_SCALAR(uint32_t, b2); IN_SCALAR(uint32_t, e2); IN_SCALAR(uint32_t, b3); IN_SCALAR(uint32_t, e3);
  IN_SCALAR(uint32_t, b);                               /* ghost block number */
  coap_rblock_t rb; coap_rblock_t old;
#ifdef VERIF_NATIVE
  memset(&rb, 0, sizeof rb);
#endif
  rb.used = used;
  rb.range[0].begin = b0; rb.range[0].end = e0; rb.range[1].begin = b1; rb.range[1].end = e1;
  rb.range[2].begin = b2; rb.range[2].end = e2; rb.range[3].begin = b3; rb.range[3].end = e3;
  ASSUME(RB_WF(&rb));
  old = rb;
#if WHICH == 1
  IN_SCALAR(uint32_t, n);
  ASSUME(n <= 0xFFFFFu + 1u);                           /* block numbers have 20 bits (coap_get_block_b refuses more) */
  ASSUME(used == 0 || rb.range[used - 1].end <= 0xFFFFFu + 1u);
  int r = update_received_blocks(&rb, n);
  CHECK(r == 0 || r == 1, "update_received_blocks returns 0 or 1");
  CHECK(!r || RB_WF(&rb), "update_received_blocks keeps the ranges ordered, non-empty and non-adjacent");
  CHECK(!r || (RB_IN(&rb, b) == (RB_IN(&old, b) || b == n)), "update_received_blocks: the recorded set becomes exactly old set + {block}");
  CHECK(r || (old.used == 3 && !RB_IN(&old, n) && rb.used == 3 && RB_IN(&rb, b) == RB_IN(&old, b)), "update_received_blocks refuses only a new block when all three range slots are taken, and then changes nothing");
  MUSTFAIL(!(r && old.used == 3 && rb.used == 2), "merge_middle_of_three_reachable");
  MUSTFAIL(r, "refuse_reachable");
  MUSTFAIL(!(r && old.used == 2 && rb.used == 3 && n < b0), "insert_front_reachable");
#else
  IN_SCALAR(size_t, total);
  /* precondition (callers): only blocks of this body have been recorded, i.e. none at or beyond total */
  ASSUME(used == 0 || rb.range[used - 1].end < total);
  ASSUME(total <= 0xFFFFFu + 1u);                       /* block numbers have 20 bits */
  int r = check_all_blocks_in(&rb, total);
  CHECK(r == 0 || r == 1, "check_all_blocks_in returns 0 or 1");
  CHECK(!r || used == 0 || b >= total || RB_IN(&rb, b), "check_all_blocks_in: 'complete' implies every block below total has been recorded");
  CHECK(r || (RB_FIRST_MISSING(&rb) < total && !RB_IN(&rb, RB_FIRST_MISSING(&rb))) , "check_all_blocks_in: 'incomplete' implies some block below total is missing");
  MUSTFAIL(!(r && total > 5), "complete_reachable");
  MUSTFAIL(r, "incomplete_reachable");
#endif
}
