/* units alloc_pdu_init / alloc_pdu_duplicate / alloc_optlist (-DWHICH=1..3): C18 - every allocation made by the function
 * under contract may fail independently (stubs/base.h); ghost G_allocs counts the blocks owned through the allocator. */
#include "coap3/coap_libcoap_build.h"
#include "spec/vin.h"
#include "spec/c_pdu.h"
#include "stubs/ctype_table.h"
#include "src/coap_pdu.c"
#include "src/coap_option.c"
#include "src/coap_encode.c"
#if WHICH == 3 || WHICH == 4
#include "src/coap_uri.c"
#endif
#include "stubs/base.h"
#include "stubs/time_prng.h"
#include "stubs/mem_havoc.h"
#ifndef VERIF_NATIVE
uint16_t nondet_newmid(void); size_t nondet_maxpdu(void);
uint16_t coap_new_message_id_lkd(coap_session_t *s) { (void)s; return nondet_newmid(); }
size_t coap_session_max_pdu_size_lkd(const coap_session_t *s) { (void)s; size_t v = nondet_maxpdu(); __CPROVER_assume(v >= 64 && v <= 70000); return v; }
#endif
void harness(void) {
  G_allocs = 0;
#if WHICH == 1
  IN_SCALAR(uint8_t, type); IN_SCALAR(uint8_t, code); IN_SCALAR(uint16_t, mid); IN_SCALAR(size_t, size);
  ASSUME(type <= 3);
  coap_pdu_t *p = coap_pdu_init((coap_pdu_type_t)type, code, mid, size);
  CHECK(p != NULL || G_allocs == 0, "coap_pdu_init: when it fails (either allocation, or size above the maximum) nothing stays allocated");
  CHECK(p == NULL || (G_allocs == 2 && p->type == type && p->code == code && p->mid == mid && p->used_size == 0 && p->max_size == size && p->alloc_size <= size && p->alloc_size <= 256 && p->data == NULL && p->e_token_length == 0 && p->max_hdr_size == 6), "coap_pdu_init: a new PDU owns exactly its struct and its buffer and is empty");
  CHECK(size <= COAP_DEFAULT_MAX_PDU_RX_SIZE - 6 || p == NULL, "coap_pdu_init refuses sizes above the configured maximum");
  if (p) { coap_delete_pdu(p); CHECK(G_allocs == 0, "coap_delete_pdu releases both blocks"); }
  MUSTFAIL(p == NULL, "success_reachable"); MUSTFAIL(p != NULL, "failure_reachable");
#elif WHICH == 2
  HARNESS_PDU(pdu);                                   /* the PDU to duplicate (any well-formed one) */
  ASSUME(alloc_size <= 70000);
  IN_SCALAR(size_t, token_length); ASSUME(token_length <= TOKMAX);
  IN_BUF(tok, token_length, CAPW);
  coap_session_t *session = malloc(sizeof(*session)); ASSUME(session != NULL);
  coap_pdu_t *d = coap_pdu_duplicate_lkd(pdu, session, token_length, tok, NULL);
  size_t opt_len = used_size - (tok_len + BIAS(tok_len)) - (data_off ? used_size - data_off + 1 : 0);
  CHECK(d != NULL || G_allocs == 0, "coap_pdu_duplicate_lkd: on failure the partly built copy is released (no leak)");
  CHECK(d == NULL || G_allocs == 2, "coap_pdu_duplicate_lkd: the copy owns exactly its struct and its buffer");
  CHECK(d == NULL || (d->actual_token.length == token_length && d->e_token_length == token_length + BIAS(token_length)), "coap_pdu_duplicate_lkd: a returned copy carries the requested token (a failed token allocation is not silently ignored)");
  CHECK(d == NULL || (d->used_size == d->e_token_length + opt_len && d->used_size <= d->alloc_size && d->data == NULL && d->max_opt == max_opt), "coap_pdu_duplicate_lkd: the copy holds the token and all options, no payload");
  MUSTFAIL(d == NULL, "success_reachable"); MUSTFAIL(d != NULL, "failure_reachable"); MUSTFAIL(!(d && token_length > 300), "long_token_reachable");
#elif WHICH == 4
  /* the URI helpers pass the result of coap_new_optlist() - NULL when the allocation failed - straight to
   * coap_replace_percents(): its contract therefore has to accept NULL (and do nothing) */
  IN_SCALAR(size_t, n); ASSUME(n <= 12);
  IN_SCALAR(uint16_t, number);
  IN_BUF(d, n, 8);
  coap_optlist_t *node = coap_new_optlist(number, n, d);        /* may be NULL */
  coap_replace_percents(node);
  CHECK(node == NULL || node->length <= n, "coap_replace_percents never grows the value");
  CHECK((node == NULL) == (G_allocs == 0), "coap_new_optlist: one block on success, none on failure");
  if (node) coap_delete_optlist(node);
  CHECK(G_allocs == 0, "everything released");
  MUSTFAIL(node != NULL, "failed_allocation_reachable"); MUSTFAIL(node == NULL, "success_reachable");
#else
  IN_SCALAR(size_t, n); ASSUME(n <= 4);
  IN_BUF(q, n, 4);
  IN_SCALAR(_Bool, path);
  coap_optlist_t *chain = NULL;
  int r = path ? coap_path_into_optlist(q, n, COAP_OPTION_URI_PATH, &chain) : coap_query_into_optlist(q, n, COAP_OPTION_URI_QUERY, &chain);
  CHECK(r == 0 || r == 1, "the optlist builders return 0 or 1");
  coap_delete_optlist(chain);
  CHECK(G_allocs == 0, "whatever allocation failed, deleting the (partial) option list releases everything that was allocated");
  MUSTFAIL(r, "failure_reachable"); MUSTFAIL(!r, "success_reachable");
#endif
}
