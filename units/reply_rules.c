/* units no_response / code_class / check_repeatable (-DWHICH=1..3): decision leaves of the server reply rules (C10) */
#include "coap3/coap_libcoap_build.h"
#include "spec/vin.h"
#include "spec/rfc7252_opt.h"
/* ghost inputs of the replaced callees */
coap_opt_t *G_nores; int G_mcast; int G_check_number;
coap_opt_t *coap_check_option_contract(const coap_pdu_t *pdu, coap_option_num_t number, coap_opt_iterator_t *oi)
__CPROVER_requires(1)
__CPROVER_assigns(G_check_number)
__CPROVER_ensures(__CPROVER_return_value == G_nores && G_check_number == number)
;
int G_isent; int G_isent_type, G_isent_code, G_isent_mid; size_t G_isent_used;
coap_mid_t coap_send_internal_contract(coap_session_t *session, coap_pdu_t *pdu)
__CPROVER_requires(__CPROVER_r_ok(pdu, sizeof(*pdu)))
__CPROVER_assigns(G_isent, G_isent_type, G_isent_code, G_isent_mid, G_isent_used)
__CPROVER_ensures(G_isent == __CPROVER_old(G_isent) + 1 && G_isent_type == (int)pdu->type && G_isent_code == (int)pdu->code && G_isent_mid == (int)pdu->mid && G_isent_used == pdu->used_size)
;
#include "src/coap_net.c"
#include "src/coap_option.c"
#include "src/coap_encode.c"
#include "src/coap_pdu.c"
#include "stubs/base.h"
#include "stubs/time_prng.h"
#include "stubs/mem_havoc.h"
#ifndef VERIF_NATIVE
int coap_is_mcast(const coap_address_t *a) { (void)a; return G_mcast; }
#endif
void harness(void) {
#if WHICH == 1
  coap_pdu_t *request = malloc(sizeof(*request)), *response = malloc(sizeof(*response)); coap_session_t *session = malloc(sizeof(*session));
  coap_context_t *ctx = malloc(sizeof(*ctx)); coap_resource_t *resource = malloc(sizeof(*resource));
  ASSUME(request && response && session && ctx && resource);
  IN_SCALAR(uint8_t, code); IN_SCALAR(uint8_t, rtype); IN_SCALAR(uint8_t, qtype); IN_SCALAR(uint8_t, proto); IN_SCALAR(_Bool, has_nr); IN_SCALAR(uint8_t, nr_len);
  IN_SCALAR(_Bool, mcast); IN_SCALAR(_Bool, per_res); IN_SCALAR(_Bool, has_res); IN_SCALAR(int, rflags); IN_SCALAR(_Bool, has_data);
  IN_BYTES(nrv, 4);
  ASSUME(rtype <= 3 && qtype <= 3 && proto >= COAP_PROTO_UDP && proto <= COAP_PROTO_WSS && nr_len <= 1);
  uint8_t optbuf[6]; optbuf[0] = nr_len; optbuf[1] = nrv.b[0];          /* No-Response option: delta 0, length 0..1 (RFC 7967: uint 0-1 B) */
  G_nores = has_nr ? optbuf : NULL; G_mcast = mcast; G_check_number = -1;
  session->context = ctx; session->proto = (coap_proto_t)proto; ctx->mcast_per_resource = per_res; resource->flags = rflags;
  request->type = (coap_pdu_type_t)qtype; response->type = (coap_pdu_type_t)rtype; response->code = code; response->data = has_data ? (uint8_t *)response : NULL;
  response->used_size = 5; response->e_token_length = 2; response->actual_token.length = 2;
  enum respond_t r = no_response(request, response, session, has_res ? resource : NULL);
  unsigned cls = code >> 5, val = (has_nr && nr_len) ? nrv.b[0] : 0; int unrel = COAP_PROTO_NOT_RELIABLE(proto);
  /* RFC 7967 2.1: bit 2 suppresses 2.xx, bit 8 suppresses 4.xx, bit 16 suppresses 5.xx */
  int suppressed = (cls == 2 && (val & 2)) || (cls == 4 && (val & 8)) || (cls == 5 && (val & 16));
  CHECK(r == RESPONSE_DEFAULT || r == RESPONSE_DROP || r == RESPONSE_SEND, "no_response returns one of its three verdicts");
  CHECK(!(has_nr && (cls == 2 || cls == 4 || cls == 5) && !suppressed) || r == RESPONSE_SEND, "RFC 7967: a No-Response option whose bit for the response class is clear means the client wants the response - it is sent, also for multicast requests");
  CHECK(!(has_nr && suppressed) || (rtype == COAP_MESSAGE_ACK && unrel ? (r == RESPONSE_SEND && response->code == 0 && response->used_size == 0 && response->e_token_length == 0 && response->data == NULL) : r == RESPONSE_DROP), "RFC 7967: a suppressed response is dropped, except that a piggy-backed ACK is still sent, as an Empty ACK without token and payload");
  CHECK(!(cls == 0 && code == 0 && (rtype == COAP_MESSAGE_NON || !unrel)) || r == RESPONSE_DROP, "an Empty message is not sent as NON or on a reliable transport");
  CHECK(!(cls > 0 && !has_nr && mcast && (!has_res || !per_res) && cls > 2) || r == RESPONSE_DROP, "RFC 7252 8.1: no error response to a multicast request");
  CHECK(!(cls > 0 && !has_nr && !mcast) || r == RESPONSE_DEFAULT, "unicast request without No-Response: default behaviour");
  CHECK(has_nr == 0 || cls == 0 || G_check_number == COAP_OPTION_NORESPONSE, "the option looked up is No-Response (258)");
  MUSTFAIL(!(r == RESPONSE_SEND && mcast && has_nr), "mcast_send_reachable"); MUSTFAIL(r != RESPONSE_DROP, "drop_reachable"); MUSTFAIL(r != RESPONSE_DEFAULT, "default_reachable");
#elif WHICH == 2
  coap_session_t *session = malloc(sizeof(*session)); coap_pdu_t *pdu = malloc(sizeof(*pdu)); ASSUME(session && pdu);
  IN_SCALAR(uint8_t, code); IN_SCALAR(uint8_t, proto); ASSUME(proto >= COAP_PROTO_UDP && proto <= COAP_PROTO_WSS);
  session->proto = (coap_proto_t)proto; pdu->code = code;
  int r = coap_check_code_class(session, pdu);
  unsigned cls = code >> 5;
  /* RFC 7252 12.1 / RFC 8323 5: classes 0 (request/empty), 2, 4, 5 defined, 3 reserved-but-tolerated, 7 signalling on reliable transports only, 1 and 6 invalid */
  CHECK(r == ((cls == 0 || cls == 2 || cls == 3 || cls == 4 || cls == 5 || (cls == 7 && !COAP_PROTO_NOT_RELIABLE(proto))) ? 1 : 0), "coap_check_code_class: classes 1 and 6 are invalid, 7.xx only on reliable transports");
  MUSTFAIL(r, "invalid_reachable"); MUSTFAIL(!r, "valid_reachable");
#elif WHICH == 4 || WHICH == 5
  coap_session_t *session = malloc(sizeof(*session)); coap_pdu_t *request = malloc(sizeof(*request)); ASSUME(session && request);
  IN_SCALAR(uint8_t, qtype); IN_SCALAR(uint8_t, proto); IN_SCALAR(uint16_t, mid); IN_SCALAR(_Bool, has_req);
  ASSUME(qtype <= 3 && proto >= COAP_PROTO_UDP && proto <= COAP_PROTO_WSS);
  session->proto = (coap_proto_t)proto; request->type = (coap_pdu_type_t)qtype; request->mid = mid; G_isent = 0;
  int unrel = COAP_PROTO_NOT_RELIABLE(proto);
#if WHICH == 4
  coap_mid_t r = coap_send_ack_lkd(session, has_req ? request : NULL);
  CHECK(G_isent <= 1 && (!G_isent || (has_req && qtype == COAP_MESSAGE_CON && unrel)), "an acknowledgement is only ever emitted for a Confirmable message on an unreliable transport (never for NON)");
  CHECK(!G_isent || (G_isent_type == COAP_MESSAGE_ACK && G_isent_code == 0 && G_isent_mid == mid && G_isent_used == 0), "the acknowledgement is an Empty ACK carrying the request's message id");
  MUSTFAIL(!G_isent, "ack_reachable"); MUSTFAIL(G_isent, "no_ack_reachable");
#else
  coap_mid_t r = coap_send_rst_lkd(session, has_req ? request : NULL);
  CHECK(G_isent <= 1 && (!G_isent || (has_req && unrel)), "a Reset is only emitted on an unreliable transport");
  CHECK(!G_isent || (G_isent_type == COAP_MESSAGE_RST && G_isent_code == 0 && G_isent_mid == mid && G_isent_used == 0), "the Reset is an Empty RST carrying the message id of the message it rejects");
  MUSTFAIL(!G_isent, "rst_reachable"); MUSTFAIL(G_isent, "no_rst_reachable");
#endif
  (void)r;
#else
  IN_SCALAR(uint16_t, number);
  int r = coap_option_check_repeatable(number);
  /* RFC 7252 5.10 table 4 (x = repeatable): If-Match 1, ETag 4, Location-Path 8, Uri-Path 11, Uri-Query 15, Location-Query 20; RFC 9175: Request-Tag 292 */
  int rep = number == 1 || number == 4 || number == 8 || number == 11 || number == 15 || number == 20 || number == 292;
  int known_single = number == 3 || number == 5 || number == 6 || number == 7 || number == 9 || number == 12 || number == 14 || number == 16 || number == 17 ||
                     number == 23 || number == 27 || number == 28 || number == 35 || number == 39 || number == 60 || number == 252 || number == 258;
  CHECK(!rep || r == 1, "options the RFCs define as repeatable may be repeated");
  CHECK(!known_single || r == 0, "options the RFCs define as non-repeatable (Uri-Host, If-None-Match, Observe, Uri-Port, OSCORE, Content-Format, Max-Age, Hop-Limit, Accept, Block2, Block1, Size2, Proxy-Uri, Proxy-Scheme, Size1, Echo, No-Response) are refused on repetition");
  CHECK(rep || known_single || r == 1, "unknown (user-defined) options are accepted");
  MUSTFAIL(r, "refuse_reachable"); MUSTFAIL(!r, "accept_reachable");
#endif
}
