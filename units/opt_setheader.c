/* unit opt_setheader: coap_opt_setheader against the RFC 7252 3.1 encoding (C01 P1) */
#include "coap3/coap_libcoap_build.h"
#include "spec/vin.h"
#include "spec/c_option.h"
#include "src/coap_option.c"
#include "stubs/base.h"
#include "stubs/mem_havoc.h"
#ifndef CAPW
#define CAPW 8
#endif
void harness(void) {
  IN_SCALAR(size_t, maxlen);
  IN_SCALAR(uint16_t, delta);
  IN_SCALAR(size_t, length);
  ASSUME(length <= MAXOPTLEN);
  IN_BUF(buf, maxlen, CAPW);
  size_t r = coap_opt_setheader(buf, maxlen, delta, length);
  CHECK(POST_SETHEADER_RET(r, maxlen, delta, length), "coap_opt_setheader returns the RFC header size, or 0 iff it does not fit");
  CHECK(POST_SETHEADER_BYTES(r, buf, delta, length), "coap_opt_setheader writes nibbles and extension bytes that decode to (delta,length)");
  MUSTFAIL(r == 0, "accept_reachable");
  MUSTFAIL(r != 0, "reject_reachable");
  MUSTFAIL(r != 5, "five_byte_header_reachable");
}
