/* unit dispatch_ack_rst_b: the ACK and RST branches of coap_dispatch (C07 / C08: a Confirmable ends when its ACK or RST arrives and its
 * NSTART slot is released; C13: application handlers are only entered inside a callback bracket and the lock state is restored).
 * Plain cbmc on harness pre/postconditions (no --dfcc), static harness objects, locking compiled in, -UNDEBUG (the library's own
 * assert(coap_thread_pid == global_lock.pid) is part of the spec).  Bounded: retransmission queue of 0..1 nodes, no resources,
 * no OSCORE option, no large-receive entries; the message type is fixed per variant (PTYPE). */
#include "coap3/coap_libcoap_build.h"
#include "spec/vin.h"
#include "spec/lock_ghost.h"
#include "src/coap_net.c"
#include "src/coap_threadsafe.c"
#include "stubs/base.h"
#include "stubs/time_prng.h"
#include "stubs/mem_havoc.h"
#if !COAP_THREAD_SAFE
#error "this unit needs the locking code compiled in"
#endif
int G_connected, G_pong, G_ping, G_nack, G_touch;
/* callees outside coap_net.c: ghost-counting stubs / "not present" answers */
coap_opt_t *coap_check_option(const coap_pdu_t *pdu, coap_option_num_t number, coap_opt_iterator_t *oi) { (void)pdu; (void)number; (void)oi; return NULL; }
void coap_session_connected(coap_session_t *s) { (void)s; G_connected++; }
void coap_handle_nack(coap_session_t *s, coap_pdu_t *sent, const coap_nack_reason_t reason, const coap_mid_t mid) { (void)s; (void)sent; (void)reason; (void)mid; G_nack++; }
void coap_touch_observer(coap_context_t *c, coap_session_t *s, const coap_bin_const_t *t) { (void)c; (void)s; (void)t; G_touch++; }
coap_lg_crcv_t *coap_block_new_lg_crcv(coap_session_t *s, coap_pdu_t *p, coap_lg_xmit_t *x) { (void)s; (void)p; (void)x; return NULL; }
void coap_show_pdu(coap_log_t l, const coap_pdu_t *p) { (void)l; (void)p; }
void coap_delete_pdu(coap_pdu_t *p) { (void)p; }
/* the received message carries no options (coap_option_check_critical then accepts it) */
coap_opt_iterator_t *coap_option_iterator_init(const coap_pdu_t *pdu, coap_opt_iterator_t *oi, const coap_opt_filter_t *filter) { (void)pdu; (void)filter; return oi; }
coap_opt_t *coap_option_next(coap_opt_iterator_t *oi) { (void)oi; return NULL; }
const char *coap_session_str(const coap_session_t *s) { (void)s; return "s"; }
void coap_option_filter_clear(coap_opt_filter_t *f) { (void)f; }
uint64_t nondet_u64(void); int nondet_int(void);
uint64_t coap_decode_var_bytes8(const uint8_t *b, size_t l) { (void)b; (void)l; return nondet_u64(); }
int coap_get_block_b(const coap_session_t *s, const coap_pdu_t *p, coap_option_num_t n, coap_block_b_t *b) { (void)s; (void)p; (void)n; (void)b; return 0; }
coap_mid_t coap_send_q_block1(coap_session_t *s, coap_block_b_t b, coap_pdu_t *r, coap_send_pdu_t t) { (void)s; (void)b; (void)r; (void)t; return nondet_int(); }
coap_mid_t coap_send_q_blocks(coap_session_t *s, coap_lg_xmit_t *l, coap_block_b_t b, coap_pdu_t *p, coap_send_pdu_t t) { (void)s; (void)l; (void)b; (void)p; (void)t; return nondet_int(); }
/* application handlers: may re-enter the API, must find themselves inside a callback bracket */
static void app_pong(coap_session_t *s, const coap_pdu_t *p, const coap_mid_t m) { (void)s; (void)p; (void)m;
  __CPROVER_assert(global_lock.in_callback > 0, "application handlers run inside a callback bracket (in_callback set, so that API re-entry does not lock again)");
  if (coap_lock_lock_func()) { coap_lock_unlock_func(); } G_pong++; }
static void app_ping(coap_session_t *s, const coap_pdu_t *p, const coap_mid_t m) { (void)s; (void)p; (void)m;
  __CPROVER_assert(global_lock.in_callback > 0, "application handlers run inside a callback bracket (in_callback set, so that API re-entry does not lock again)");
  G_ping++; }
#ifndef PT
#define PT 2     /* 2 = COAP_MESSAGE_ACK, 3 = COAP_MESSAGE_RST (numeric: used in #if) */
#endif
void harness(void) {
  static coap_context_t ctx_o; static coap_session_t session_o, other_o; static coap_pdu_t pdu_o, sent_pdu_o; static coap_queue_t node_o;
  coap_context_t *ctx = &ctx_o; coap_session_t *session = &session_o; coap_pdu_t *pdu = &pdu_o;
  IN_SCALAR(uint64_t, me); ASSUME(me != 0);
  G_me = (pthread_t)me; coap_started = 1; global_lock.pid = G_me; global_lock.in_callback = 0; global_lock.lock_count = 0; G_held = 1; G_mutex_ops = 0;
  IN_SCALAR(uint8_t, ns); IN_SCALAR(_Bool, mine); IN_SCALAR(uint16_t, qmid); IN_SCALAR(uint16_t, mid); IN_SCALAR(uint8_t, code); IN_SCALAR(uint8_t, scode); IN_SCALAR(uint8_t, stype);
  IN_SCALAR(uint8_t, con_active); IN_SCALAR(uint8_t, state); IN_SCALAR(uint8_t, proto); IN_SCALAR(int, last_ping_mid); IN_SCALAR(uint32_t, ping_timeout); IN_SCALAR(uint64_t, last_ping);
  IN_SCALAR(_Bool, has_pong); IN_SCALAR(_Bool, has_ping);
  ASSUME(ns <= 1 && stype <= 3 && state <= COAP_SESSION_STATE_ESTABLISHED && proto >= COAP_PROTO_UDP && proto <= COAP_PROTO_WSS);
  node_o.next = NULL; node_o.session = mine ? session : &other_o; node_o.id = qmid; node_o.pdu = &sent_pdu_o; node_o.t = 0;
  sent_pdu_o.mid = qmid; sent_pdu_o.code = (coap_pdu_code_t)scode; sent_pdu_o.type = (coap_pdu_type_t)stype; sent_pdu_o.actual_token.length = 0; sent_pdu_o.actual_token.s = NULL; sent_pdu_o.lg_xmit = NULL;
  ctx->sendqueue = ns ? &node_o : NULL; ctx->resources = NULL; ctx->ping_timeout = ping_timeout;
  coap_pong_handler_t keep1 = app_pong; coap_ping_handler_t keep2 = app_ping; (void)keep1; (void)keep2;
  ctx->pong_handler = has_pong ? app_pong : NULL; ctx->ping_handler = has_ping ? app_ping : NULL; ctx->nack_handler = NULL; ctx->proxy_uri_resource = NULL;
  session->context = ctx; session->con_active = con_active; session->state = (coap_session_state_t)state; session->proto = (coap_proto_t)proto;
  session->last_ping_mid = last_ping_mid; session->last_ping = last_ping; session->lg_crcv = NULL; session->lg_xmit = NULL; session->oscore_encryption = 0; session->recipient_ctx = NULL;
  session->block_mode = 0; session->max_token_checked = COAP_EXT_T_CHECKED; session->remote_test_mid = COAP_INVALID_MID;
  pdu->type = (coap_pdu_type_t)PT; pdu->code = (coap_pdu_code_t)code; pdu->mid = mid; pdu->actual_token.length = 0; pdu->actual_token.s = NULL; pdu->data = NULL; pdu->used_size = 0; pdu->e_token_length = 0;
  G_connected = G_pong = G_ping = G_nack = G_touch = 0;
  const int valid = coap_check_code_class(session, pdu);     /* a message with an invalid code is dropped as a whole: not an acknowledgement */
  const int found = ns == 1 && mine && qmid == mid;
  coap_dispatch(ctx, session, pdu);
  CHECK(G_held == 1 && global_lock.pid == G_me && global_lock.in_callback == 0 && global_lock.lock_count == 0, "coap_dispatch returns with the lock held and the callback nesting restored");
  CHECK(ctx->sendqueue == ((found || !ns) ? NULL : &node_o), "exactly the queued message with this session and message id leaves the retransmission queue (it is never retransmitted again)");
#if PT == 2
  CHECK(session->con_active == ((valid && found && con_active > 0) ? con_active - 1 : con_active), "an ACK (empty or piggy-backed) for a queued Confirmable releases exactly one NSTART slot; any other ACK releases none");
  CHECK(G_connected == ((valid && found && con_active > 0 && state == COAP_SESSION_STATE_ESTABLISHED) ? 1 : 0), "held messages are flushed exactly when a slot was released on an established session");
  CHECK(G_pong == 0, "no pong handler on ACK");
  MUSTFAIL(!(valid && found && con_active > 0 && code == 0), "empty_ack_reachable"); MUSTFAIL(!(valid && found && code != 0), "piggybacked_reachable");
#else
  const int is_ping_rst = (int)mid == last_ping_mid && ping_timeout && last_ping > 0;
  CHECK(session->con_active == ((valid && con_active > 0) ? con_active - 1 : con_active), "a RST releases one NSTART slot");
  CHECK(G_pong == ((valid && found && is_ping_rst && has_pong) ? 1 : 0), "the pong handler is called exactly once for the RST that answers a keep-alive ping");
  CHECK(!(valid && found && is_ping_rst) || session->last_ping_mid == COAP_INVALID_MID, "the keep-alive is marked answered");
  CHECK(G_nack == (!valid ? (found ? 1 : 0) : ((found ? (!is_ping_rst && stype == COAP_MESSAGE_CON) : 1) ? 1 : 0)), "a RST is reported by exactly one NACK (none for a keep-alive answer or a reset Non-confirmable)");
  MUSTFAIL(!(G_pong == 1), "pong_reachable"); MUSTFAIL(!(found && G_nack == 1), "nack_reachable");
#endif
}
