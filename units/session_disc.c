/* unit session_disc_b (bounded tier): coap_session_disconnected_lkd - what the application is told when a session fails
 * (C08 / C19: "if the session fails, each held Confirmable is reported by exactly one NACK").
 * Bounded: retransmission queue <= 2 entries, delay queue <= 2 entries, at most one large-receive (lg_crcv) entry; no lg_xmit /
 * lg_srcv entries.  Everything else (message types, ids, reason, protocol, state) symbolic. */
#include "coap3/coap_libcoap_build.h"
#include "spec/vin.h"
#define NL 6
int G_nack_n; coap_pdu_t *G_nack_pdu[NL]; int G_nack_mid[NL]; int G_nack_reason[NL]; coap_session_t *G_nack_session[NL];
const char *coap_session_str_contract(const coap_session_t *session) __CPROVER_requires(1) __CPROVER_assigns() __CPROVER_ensures(1);
/* coap_handle_nack (calls the application's NACK handler inside a callback bracket): replaced by a ghost log */
void coap_handle_nack_contract(coap_session_t *session, coap_pdu_t *sent, const coap_nack_reason_t reason, const coap_mid_t mid)
__CPROVER_requires(__CPROVER_r_ok(session, sizeof(*session)))
__CPROVER_assigns(G_nack_n, __CPROVER_object_whole(G_nack_pdu), __CPROVER_object_whole(G_nack_mid), __CPROVER_object_whole(G_nack_reason), __CPROVER_object_whole(G_nack_session))
__CPROVER_ensures(G_nack_n == __CPROVER_old(G_nack_n) + 1)
__CPROVER_ensures(__CPROVER_old(G_nack_n) < 0 || __CPROVER_old(G_nack_n) >= NL ||
  (G_nack_pdu[__CPROVER_old(G_nack_n)] == sent && G_nack_mid[__CPROVER_old(G_nack_n)] == mid && G_nack_reason[__CPROVER_old(G_nack_n)] == (int)reason && G_nack_session[__CPROVER_old(G_nack_n)] == session))
/* entries logged earlier are kept */
__CPROVER_ensures(__CPROVER_old(G_nack_n) < 1 || __CPROVER_old(G_nack_n) >= NL || (G_nack_pdu[0] == __CPROVER_old(G_nack_pdu[0]) && G_nack_mid[0] == __CPROVER_old(G_nack_mid[0]) && G_nack_reason[0] == __CPROVER_old(G_nack_reason[0]) && G_nack_session[0] == __CPROVER_old(G_nack_session[0])))
__CPROVER_ensures(__CPROVER_old(G_nack_n) < 2 || __CPROVER_old(G_nack_n) >= NL || (G_nack_pdu[1] == __CPROVER_old(G_nack_pdu[1]) && G_nack_mid[1] == __CPROVER_old(G_nack_mid[1]) && G_nack_reason[1] == __CPROVER_old(G_nack_reason[1]) && G_nack_session[1] == __CPROVER_old(G_nack_session[1])))
__CPROVER_ensures(__CPROVER_old(G_nack_n) < 3 || __CPROVER_old(G_nack_n) >= NL || (G_nack_pdu[2] == __CPROVER_old(G_nack_pdu[2]) && G_nack_mid[2] == __CPROVER_old(G_nack_mid[2]) && G_nack_reason[2] == __CPROVER_old(G_nack_reason[2]) && G_nack_session[2] == __CPROVER_old(G_nack_session[2])))
__CPROVER_ensures(__CPROVER_old(G_nack_n) < 4 || __CPROVER_old(G_nack_n) >= NL || (G_nack_pdu[3] == __CPROVER_old(G_nack_pdu[3]) && G_nack_mid[3] == __CPROVER_old(G_nack_mid[3]) && G_nack_reason[3] == __CPROVER_old(G_nack_reason[3]) && G_nack_session[3] == __CPROVER_old(G_nack_session[3])));
#include "src/coap_session.c"
#include "stubs/base.h"
#include "stubs/time_prng.h"
#include "stubs/mem_havoc.h"
int G_ndel; coap_queue_t *G_del_node[NL]; int G_events, G_closed, G_cancel, G_delobs, G_dellg;
int coap_delete_node_lkd(coap_queue_t *node) { if (G_ndel < NL) G_del_node[G_ndel] = node; G_ndel++; return 1; }
int coap_handle_event_lkd(coap_context_t *c, coap_event_t e, coap_session_t *s) { (void)c; (void)e; (void)s; G_events++; return 0; }
void coap_delete_observers(coap_context_t *c, coap_session_t *s) { (void)c; (void)s; G_delobs++; }
void coap_delete_pdu(coap_pdu_t *p) { (void)p; }
void coap_block_delete_lg_crcv(coap_session_t *s, coap_lg_crcv_t *l) { (void)s; (void)l; G_dellg++; }
void coap_block_delete_lg_xmit(coap_session_t *s, coap_lg_xmit_t *l) { (void)s; (void)l; }
void coap_block_delete_lg_srcv(coap_session_t *s, coap_lg_srcv_t *l) { (void)s; (void)l; }
void coap_cancel_session_messages(coap_context_t *c, coap_session_t *s, coap_nack_reason_t r) { (void)c; (void)s; (void)r; G_cancel++; }
_Bool nondet_avail(void);
int coap_netif_available(coap_session_t *s) { (void)s; return nondet_avail(); }
static void vh_close(coap_session_t *s) { (void)s; G_closed++; }
static int count_pdu(coap_pdu_t *p) { int c = 0; for (int k = 0; k < NL; k++) if (k < G_nack_n && G_nack_pdu[k] == p) c++; return c; }
static int count_mid(int m) { int c = 0; for (int k = 0; k < NL; k++) if (k < G_nack_n && G_nack_mid[k] == m) c++; return c; }
void harness(void) {
  static coap_session_t session_o, other_o; static coap_context_t ctx_o; static coap_queue_t s0, s1, d0, d1; static coap_pdu_t sp0, sp1, dp0, dp1; static coap_lg_crcv_t lg;
  coap_session_t *session = &session_o; coap_context_t *ctx = &ctx_o;
  coap_queue_t *const sq[2] = { &s0, &s1 }, *const dq[2] = { &d0, &d1 }; coap_pdu_t *const spd[2] = { &sp0, &sp1 }, *const dpd[2] = { &dp0, &dp1 };
  IN_SCALAR(uint8_t, ns); IN_SCALAR(uint8_t, nd); IN_SCALAR(_Bool, has_lg); IN_SCALAR(uint8_t, reason); IN_SCALAR(uint8_t, proto); IN_SCALAR(uint8_t, state);
  IN_SCALAR(_Bool, mine0); IN_SCALAR(_Bool, mine1); IN_SCALAR(uint8_t, t0); IN_SCALAR(uint8_t, t1); IN_SCALAR(uint16_t, sm0); IN_SCALAR(uint16_t, sm1); IN_SCALAR(uint16_t, dm0); IN_SCALAR(uint16_t, dm1); IN_SCALAR(uint16_t, lgmid);
  ASSUME(ns <= 2 && nd <= 2 && t0 <= 3 && t1 <= 3 && reason <= COAP_NACK_BAD_RESPONSE);
  ASSUME(proto >= COAP_PROTO_UDP && proto <= COAP_PROTO_WSS && state <= COAP_SESSION_STATE_ESTABLISHED);
  /* message ids of different held messages of one session are different */
  ASSUME(sm0 != sm1 && dm0 != dm1 && sm0 != dm0 && sm0 != dm1 && sm1 != dm0 && sm1 != dm1);
  const _Bool mine[2] = { mine0, mine1 }; const uint8_t ty[2] = { t0, t1 }; const uint16_t smid[2] = { sm0, sm1 }, dmid[2] = { dm0, dm1 };
  for (int i = 0; i < 2; i++) {
    sq[i]->next = (i + 1 < ns) ? sq[1] : NULL; sq[i]->pdu = spd[i]; sq[i]->id = smid[i]; sq[i]->session = mine[i] ? session : &other_o; spd[i]->mid = smid[i]; spd[i]->type = COAP_MESSAGE_CON;
    dq[i]->next = (i + 1 < nd) ? dq[1] : NULL; dq[i]->pdu = dpd[i]; dq[i]->id = dmid[i]; dq[i]->session = session; dpd[i]->mid = dmid[i]; dpd[i]->type = (coap_pdu_type_t)ty[i];
  }
  session->context = ctx; ctx->sendqueue = ns ? sq[0] : NULL; session->delayqueue = nd ? dq[0] : NULL;
  lg.next = NULL; lg.pdu.mid = lgmid; session->lg_crcv = has_lg ? &lg : NULL; session->lg_xmit = NULL; session->lg_srcv = NULL;
  session->proto = (coap_proto_t)proto; session->state = (coap_session_state_t)state; session->partial_pdu = NULL; session->con_active = 1;
  coap_layer_close_t keep = vh_close; (void)keep; session->sock.lfunc[COAP_LAYER_SESSION].l_close = vh_close;
  G_nack_n = 0; G_ndel = 0; G_events = 0; G_closed = 0; G_cancel = 0; G_delobs = 0; G_dellg = 0;
  for (int k = 0; k < NL; k++) { G_nack_pdu[k] = NULL; G_nack_mid[k] = -2; }
  coap_session_disconnected_lkd(session, (coap_nack_reason_t)reason);
  const int icmp = reason == COAP_NACK_ICMP_ISSUE;
  CHECK(G_nack_n >= 1 && G_nack_n <= 4, "the application is told at least once that the session failed");
  for (int k = 0; k < NL; k++) if (k < G_nack_n) CHECK(G_nack_reason[k] == reason && G_nack_session[k] == session, "every NACK names this session and the reason given");
  for (int i = 0; i < 2; i++) if (i < nd) {
    CHECK(count_pdu(dpd[i]) == ((!icmp && ty[i] == COAP_MESSAGE_CON) ? 1 : 0), "each held Confirmable is reported by exactly one NACK carrying that message, a held Non-confirmable by none");
    CHECK(!(!icmp && ty[i] == COAP_MESSAGE_CON) || count_mid(dmid[i]) == 1, "exactly one NACK names the message id of a held Confirmable (also when a large-receive entry tracks the same request)");
  }
  CHECK(count_pdu(NULL) <= 1 && (count_pdu(NULL) == 0 || G_nack_n == 1), "the anonymous NACK (no message) is only used when no message could be named");
  CHECK(icmp ? (session->delayqueue == (nd ? dq[0] : NULL) && G_ndel == 0) : (session->delayqueue == NULL && G_ndel == nd), "after a disconnect the delay queue is empty and every held node was released exactly once (ICMP issue: the queue is kept)");
  for (int i = 0; i < 2; i++) if (!icmp && i < nd) CHECK(G_del_node[i] == dq[i], "held nodes are released in order");
  CHECK(icmp || (session->con_active == 0 && G_closed == 1 && G_cancel == 1 && session->state == (proto == COAP_PROTO_UDP ? COAP_SESSION_STATE_ESTABLISHED : COAP_SESSION_STATE_NONE)), "a disconnected session has no Confirmable in flight, its queued messages are cancelled and the transport is closed once");
  MUSTFAIL(!(G_nack_n == 3), "three_nacks_reachable"); MUSTFAIL(!(count_pdu(&lg.pdu) == 1), "lg_crcv_nack_reachable"); MUSTFAIL(!(count_pdu(NULL) == 1), "anonymous_nack_reachable"); MUSTFAIL(!(nd == 2 && has_lg && lgmid == dm0 && !icmp && t0 == 0), "tracked_request_reachable");
}
