/* units lock_funcs / lock_config / lock_handle_event (-DWHICH=1..3): C13 lock protocol as sequential ghost-state contracts.
 * Built with the configuration headers generated from the current CMakeLists.txt (so a broken COAP_THREAD_SAFE define
 * is seen) and with -UNDEBUG: the library's own assert(coap_thread_pid == global_lock.pid) is part of the spec. */
#include "coap3/coap_libcoap_build.h"
#include "spec/vin.h"
#include "spec/lock_ghost.h"
#if WHICH == 3 && COAP_THREAD_SAFE
static int app_event_cb(coap_session_t *s, const coap_event_t e);
#endif
#include "src/coap_net.c"
#include "src/coap_threadsafe.c"
#include "stubs/base.h"
#include "stubs/time_prng.h"
#include "stubs/mem_havoc.h"
#if COAP_THREAD_SAFE
#define LOCKING_COMPILED 1
#else
#define LOCKING_COMPILED 0
coap_lock_t global_lock_dummy;
#endif
#if WHICH == 3 && COAP_THREAD_SAFE
/* application callback that re-enters the public API (lock / unlock pair as every COAP_API wrapper does) */
static int app_event_cb(coap_session_t *s, const coap_event_t e) {
  (void)s; (void)e;
  __CPROVER_assert(global_lock.in_callback > 0, "application callbacks run with in_callback set (so that API re-entry does not lock again)");
  if (coap_lock_lock_func()) { coap_lock_unlock_func(); }
  int verdict; return verdict;
}
void coap_proxy_remove_association(coap_session_t *s, int x) { (void)s; (void)x; }
#endif
void harness(void) {
  IN_SCALAR(uint64_t, me);
  ASSUME(me != 0);
  G_me = (pthread_t)me; G_mutex_ops = 0; G_held = 0;
#if WHICH == 2
  /* configuration consistency: advertised support <=> the locking macros really lock */
  int s = coap_threadsafe_is_supported();
  coap_context_t *ctx = NULL; int failed = 0;
  coap_started = 1; G_held = 0;
#if COAP_THREAD_SAFE
  global_lock.in_callback = 0; global_lock.lock_count = 0; global_lock.pid = 0;
#endif
  coap_lock_lock(ctx, failed = 1);
  CHECK(!s || (G_held == 1 && !failed), "when coap_threadsafe_is_supported() reports support, coap_lock_lock() really acquires the global mutex");
  CHECK(s || G_held == 0, "without support no mutex is touched");
  CHECK(s == LOCKING_COMPILED, "coap_threadsafe_is_supported() agrees with '#if COAP_THREAD_SAFE' of this build configuration");
  MUSTFAIL(0, "end_reachable");
#elif !COAP_THREAD_SAFE
  CHECK(0, "this unit needs the locking code compiled in (COAP_THREAD_SAFE evaluates to 0 in this configuration)");
  MUSTFAIL(0, "end_reachable");
#elif WHICH == 1
  IN_SCALAR(uint32_t, in_cb); IN_SCALAR(uint32_t, lcnt); IN_SCALAR(uint64_t, pid); IN_SCALAR(_Bool, started); IN_SCALAR(_Bool, do_unlock);
  global_lock.in_callback = in_cb; global_lock.lock_count = lcnt; global_lock.pid = (pthread_t)pid; coap_started = started;
  G_held = (pid == me); G_mutex_ops = 0;
  ASSUME(I_LOCK());
  if (!do_unlock) {
    /* API entry is legal when the lock is free, or when this thread holds it inside an application callback */
    /* (re-entry: one nested lock per callback level, the library's own invariant in_callback == lock_count + 1;
     *  first entry: sequentially the lock is then free - another owner would make this thread block, not proceed) */
    ASSUME(G_held ? (in_cb > 0 && lcnt + 1 == in_cb) : (pid == 0 && in_cb == 0 && lcnt == 0));
    int r = coap_lock_lock_func();
    CHECK(r == (started ? 1 : 0), "coap_lock_lock_func fails exactly when libcoap has not been started");
    CHECK(r || (global_lock.in_callback == in_cb && global_lock.lock_count == lcnt && G_held == (pid == me) && G_mutex_ops == 0), "a failed lock changes nothing");
    CHECK(!r || (G_held && global_lock.pid == G_me), "after a successful lock this thread owns the global lock");
    CHECK(!r || pid != me || (global_lock.lock_count == lcnt + 1 && G_mutex_ops == 0 && global_lock.in_callback == in_cb), "re-entry from a callback only counts (no mutex operation, so no self-deadlock)");
    CHECK(!r || pid == me || (global_lock.lock_count == lcnt && G_mutex_ops == 1), "a first entry takes the mutex exactly once");
    CHECK(!r || I_LOCK(), "lock keeps the representation invariant");
    MUSTFAIL(!(r && pid == me), "reentry_reachable"); MUSTFAIL(!(r && pid != me), "first_entry_reachable");
  } else {
    ASSUME(G_held && (in_cb == 0 || lcnt > 0));
    coap_lock_unlock_func();
    CHECK(in_cb == 0 || (G_held && global_lock.lock_count == lcnt - 1 && global_lock.in_callback == in_cb && G_mutex_ops == 0), "unlock of a nested (callback) lock only counts down and keeps the mutex");
    CHECK(in_cb != 0 || (!G_held && global_lock.pid == 0 && G_mutex_ops == 1), "unlock of the outermost lock releases the mutex and clears the owner");
    CHECK(I_LOCK(), "unlock keeps the representation invariant");
    MUSTFAIL(in_cb == 0, "nested_unlock_reachable"); MUSTFAIL(in_cb != 0, "outer_unlock_reachable");
  }
#else
  IN_SCALAR(uint32_t, in_cb); IN_SCALAR(_Bool, has_handler); IN_SCALAR(uint32_t, event);
  coap_context_t *ctx = malloc(sizeof(*ctx)); coap_session_t *sess = malloc(sizeof(*sess));
  ASSUME(ctx != NULL && sess != NULL);
  coap_started = 1;
  coap_event_handler_t keep = app_event_cb; (void)keep;
  ctx->handle_event = has_handler ? app_event_cb : NULL;
  ASSUME(in_cb < 1000);
  /* called with the lock held, from any callback nesting depth where count and depth agree */
  global_lock.in_callback = in_cb; global_lock.lock_count = in_cb; global_lock.pid = G_me; G_held = 1; G_mutex_ops = 0;
  int r = coap_handle_event_lkd(ctx, (coap_event_t)event, sess);
  CHECK(G_held == 1 && global_lock.pid == G_me, "coap_handle_event_lkd returns with the lock still held by this thread");
  CHECK(global_lock.in_callback == in_cb, "coap_handle_event_lkd restores in_callback (the event callback bracket is balanced)");
  CHECK(global_lock.lock_count == in_cb, "coap_handle_event_lkd leaves lock_count balanced although the callback re-entered the API");
  CHECK(G_mutex_ops == 0, "no mutex operation while the library stays locked around the callback");
  MUSTFAIL(!has_handler, "callback_reachable");
#endif
}
