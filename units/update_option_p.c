/* unit update_option_p: SHAPE contract of coap_update_option (C04) with all sizes symbolic.
 * coap_check_option (iterator with a filter loop) is replaced by a ghost contract: "returns the option the harness chose"
 * - its own correctness (it returns the FIRST option with that number) is an ASSUMED contract, listed as such.
 * The option sits at any offset of any well-formed PDU; buffer sizes up to the maximum; allocator may fail. */
#include "coap3/coap_libcoap_build.h"
#include "spec/vin.h"
#ifndef PDU_MAXA
#define PDU_MAXA 70000
#endif
#ifdef POFF
/* bounded by position: the header space is 6 bytes, the token empty (the editor never looks at either) and the named option
 * starts POFF bytes into the options region - every offset is then a constant for cbmc; lengths, delta, payload, sizes stay symbolic */
#define VH_PDU_FIX max_hdr_size = 6; tok_len = 0
#endif
#include "spec/c_option.h"
#include "spec/c_pdu.h"
size_t G_opt_off;       /* ghost: offset of the named option from pdu->token (stable across realloc) */
coap_opt_t *coap_check_option_contract(const coap_pdu_t *pdu, coap_option_num_t number, coap_opt_iterator_t *oi)
__CPROVER_requires(__CPROVER_r_ok(pdu, sizeof(*pdu)))
__CPROVER_assigns()
__CPROVER_ensures(__CPROVER_return_value == pdu->token + G_opt_off)
;
/* coap_update_option falls back to coap_insert_option when the option is absent: not in this unit (the iterator contract returns
 * the option), and the real body is mutually recursive with coap_add_option_internal, which symex would unwind without bound */
size_t coap_insert_option_unreached_contract(coap_pdu_t *pdu, coap_option_num_t number, size_t len, const uint8_t *data)
__CPROVER_requires(0) __CPROVER_assigns() __CPROVER_ensures(1);
#include "src/coap_pdu.c"
#include "src/coap_option.c"
#include "src/coap_encode.c"
#ifdef PDU_FIXED_BLOCK
#define ALLOC_CAP PDU_FIXED_BLOCK        /* bounded tier: every block (also what realloc returns) has this constant size */
#include "stubs/alloc_bounded.h"
#else
#include "stubs/base.h"
#endif
#include "stubs/mem_havoc.h"
void harness(void) {
  HARNESS_PDU(pdu);
  ASSUME(max_size != 0);
  pdu->hdr_size = 0; pdu->session = NULL;
  IN_SCALAR(uint16_t, number); IN_SCALAR(size_t, len); IN_SCALAR(size_t, p_off);
#ifdef POFF
  p_off = POFF;
#endif
  ASSUME(len <= 1034);
  IN_BUF(val, len, 16);
  size_t opt_end = data_off ? data_off - 1 : used_size;
  ASSUME(p_off >= pdu->e_token_length && p_off < opt_end && WELLFORMED(pdu->token + p_off, opt_end - p_off));
  G_opt_off = p_off; G_old_doff = data_off;
  const size_t oldsz = HDR(pdu->token + p_off) + LENV(pdu->token + p_off), delta = DELTA(pdu->token + p_off), old_etkl = pdu->e_token_length;
  size_t r = coap_update_option(pdu, number, len, val);
  size_t newsz = HDRSZ(delta, len) + len;
  CHECK(r == 0 || r == 1, "coap_update_option returns 0 or 1");
  CHECK(!r || (pdu->used_size == used_size - oldsz + newsz && pdu->used_size <= pdu->alloc_size && pdu->alloc_size <= pdu->max_size), "coap_update_option: the message grows/shrinks by exactly the difference of the encoded sizes of the named option (header extension bytes included)");
  CHECK(!r || (data_off ? (pdu->data != NULL && (size_t)(pdu->data - pdu->token) == data_off - oldsz + newsz) : pdu->data == NULL), "coap_update_option: the payload moves by the same amount");
  CHECK(!r || (pdu->max_opt == max_opt && pdu->e_token_length == old_etkl), "coap_update_option keeps the token and the highest option number");
  CHECK(!r || (DELTA(pdu->token + p_off) == delta && LENV(pdu->token + p_off) == len && HDR(pdu->token + p_off) == HDRSZ(delta, len)), "coap_update_option: the option keeps its delta (number) and carries the new length, at the same position");
  CHECK(r || (pdu->used_size == used_size && (data_off ? (size_t)(pdu->data - pdu->token) == data_off : pdu->data == NULL)), "coap_update_option: a refused update leaves sizes and payload position unchanged");
  MUSTFAIL(!(r && newsz > oldsz + 1 && data_off), "grow_across_threshold_reachable"); MUSTFAIL(!(r && newsz + 1 < oldsz), "shrink_reachable"); MUSTFAIL(r, "refusal_reachable");
}
