/* unit opt_roundtrip: lemma over the real coap_opt_encode and coap_opt_parse (C01 P1): every (delta, length) the encoder
 * accepts decodes back to the same delta, length and value position - over the full product domain, loop-free. */
#include "coap3/coap_libcoap_build.h"
#include "spec/vin.h"
#include "spec/c_option.h"
#include "src/coap_option.c"
#include "stubs/base.h"
#include "stubs/mem_havoc.h"
void harness(void) {
  IN_SCALAR(uint16_t, delta); IN_SCALAR(size_t, length); IN_SCALAR(size_t, slack);
  ASSUME(length <= MAXOPTLEN && slack <= 4);
  size_t maxlen = HDRSZ(delta, length) + length + slack;
  IN_BUF(buf, maxlen, 24);
  IN_BUF(val, length, 16);
  size_t n = coap_opt_encode(buf, maxlen, delta, val, length);
  CHECK(n == HDRSZ(delta, length) + length, "the encoder accepts every (delta, length) that fits");
  coap_option_t res;
  size_t m = coap_opt_parse(buf, n, &res);
  CHECK(m == n && res.delta == delta && res.length == length && res.value == buf + HDRSZ(delta, length), "parsing what coap_opt_encode produced yields the same delta, length and value position, consuming exactly the encoded size");
  MUSTFAIL(!(delta >= 269 && length >= 269), "five_byte_header_reachable");
}
