/* unit update_token: coap_update_token shape contract (C04), callees coap_pdu_check_resize/coap_pdu_resize inlined */
#include "coap3/coap_libcoap_build.h"
#include "spec/vin.h"
#include "spec/c_pdu.h"
#include "src/coap_pdu.c"
#include "src/coap_encode.c"
#include "stubs/base.h"
#include "stubs/mem_havoc.h"
void harness(void) {
  HARNESS_PDU(pdu);
  ASSUME(used_size > 0);
  pdu->hdr_size = 0; pdu->session = NULL;
  IN_SCALAR(size_t, len);
  ASSUME(len <= TOKMAX + 2);
  IN_BUF(tok, len, CAPW);
  size_t old_etkl = pdu->e_token_length;
  G_old_doff = data_off;
  int r = coap_update_token(pdu, len, tok);
  CHECK(r == 0 || r == 1, "coap_update_token returns 0 or 1");
  CHECK(POST_UPDTOK_SHAPE(r, pdu, len, used_size, old_etkl, data_off), "coap_update_token: token length fields, used_size and payload offset follow the new token length");
  CHECK(POST_UPDTOK_EXT(r, pdu, len), "coap_update_token: RFC 8974 extended token length bytes");
  CHECK(POST_UPDTOK_REFUSED(r, pdu, used_size, old_etkl, data_off, alloc_size), "coap_update_token: a refused update changes nothing");
  MUSTFAIL(r != 1, "accept_reachable");
  MUSTFAIL(r != 0, "reject_reachable");
  MUSTFAIL(!(r == 1 && len > 300 && data_off), "long_token_with_payload_reachable");
}
