/* units oscore_replay / oscore_rollback / oscore_sender_seq (-DWHICH=1..3): C15 */
#include "coap3/coap_libcoap_build.h"
#include "spec/vin.h"
#include "spec/c_oscore.h"
#include "src/oscore/oscore.c"
#include "src/coap_encode.c"
#include "stubs/base.h"
#include "stubs/mem_havoc.h"
void harness(void) {
#if WHICH == 3
  IN_SCALAR(uint64_t, seq);
  ASSUME(seq < UINT64_MAX);
  oscore_ctx_t octx; oscore_sender_ctx_t snd;
  octx.sender_context = &snd; snd.seq = seq;
  uint8_t r = oscore_increment_sender_seq(&octx);
  CHECK(snd.seq == seq + 1, "oscore_increment_sender_seq advances the sender sequence number by exactly one");
  CHECK(r == (snd.seq < SEQ_MAX_ ? 1 : 0), "oscore_increment_sender_seq reports exhaustion exactly when the number reaches 2^40-1");
  MUSTFAIL(r != 0, "exhaustion_reachable");
  MUSTFAIL(seq <= SEQ_MAX_, "beyond_exhaustion_reachable");
#else
  IN_SCALAR(uint64_t, last_seq); IN_SCALAR(uint64_t, window); IN_SCALAR(uint32_t, wsize);
  IN_SCALAR(uint64_t, rb_last); IN_SCALAR(uint64_t, rb_win);
  IN_SCALAR(uint64_t, u);
  IN_SCALAR(size_t, piv_len);
  IN_BYTES(piv, 8);
  ASSUME(piv_len <= 8 && (window & 1u) && last_seq < SEQ_MAX_);
  /* independent big-endian decoding of the partial IV */
  uint64_t v = 0;
  for (size_t i = 0; i < 8; i++) if (i < piv_len) v = (v << 8) | piv.b[i];
  oscore_ctx_t octx; oscore_recipient_ctx_t rcp; cose_encrypt0_t cose;
  octx.replay_window_size = wsize;
  rcp.osc_ctx = &octx; rcp.last_seq = last_seq; rcp.sliding_window = window; rcp.initial_state = 0;
  rcp.rollback_last_seq = rb_last; rcp.rollback_sliding_window = rb_win;
  cose.partial_iv.s = piv.b; cose.partial_iv.length = piv_len;
  G_u = u; G_v = v;
  uint8_t r = oscore_validate_sender_seq(&rcp, &cose);
#if WHICH == 1
  CHECK(POST_VALIDATE(r, &rcp, v, u, last_seq, window, wsize), "oscore_validate_sender_seq: accepted numbers become remembered, remembered numbers stay remembered and are refused, refusal changes nothing, fresh numbers are accepted");
  MUSTFAIL(r != 1, "accept_reachable");
  MUSTFAIL(r != 0, "reject_reachable");
  MUSTFAIL(!(r == 1 && v < last_seq), "older_in_window_accept_reachable");
  MUSTFAIL(!(r == 1 && v > last_seq + 64), "jump_over_64_reachable");
#else
  ASSUME(r == 1);
  oscore_roll_back_seq(&rcp);
  CHECK(rcp.last_seq == last_seq && rcp.sliding_window == window, "validate followed by roll-back (failed authentication) leaves sequence number and window exactly as before");
  CHECK(rcp.rollback_sliding_window == 0, "roll-back consumes the saved state");
  MUSTFAIL(last_seq != 0, "last_seq_zero_reachable");
  MUSTFAIL(v <= last_seq + 64, "jump_over_64_reachable");
#endif
#endif
}
