/* unit opt_accessors: coap_opt_length / coap_opt_value / coap_opt_size (no length argument): given that the
 * option header lies inside the buffer they return the RFC decoding and read nothing beyond the header (C02, C03).
 * One harness per function selected by -DWHICH. */
#include "coap3/coap_libcoap_build.h"
#include "spec/vin.h"
#include "spec/c_option.h"
#include "src/coap_option.c"
#include "stubs/base.h"
#include "stubs/mem_havoc.h"
#ifndef CAPW
#define CAPW 8
#endif
void harness(void) {
  IN_SCALAR(size_t, n);
  IN_BUF(buf, n, CAPW);
#if WHICH == 1
  ASSUME(n >= 1 && n >= HDR(buf));
  uint32_t r = coap_opt_length(buf);
  CHECK(r == (OPT_RESERVED(buf) ? 0u : LENV(buf)), "coap_opt_length equals the RFC length decoding");
  MUSTFAIL(r != 65804u, "max_reachable");
#elif WHICH == 2
  ASSUME(n >= 1 && n >= HDR(buf));
  const uint8_t *r = coap_opt_value(buf);
  CHECK(r == (OPT_RESERVED(buf) ? (const uint8_t *)0 : buf + HDR(buf)), "coap_opt_value points just behind the RFC header");
  MUSTFAIL(n < 5 || r != buf + 5, "max_reachable");
#else
  ASSUME(n >= 1 && n >= HDR(buf) && n >= HDR(buf) + LENV(buf));
  size_t r = coap_opt_size(buf);
  CHECK(r == ((OPT_RESERVED(buf) || DELTA(buf) > 65535u) ? 0u : HDR(buf) + LENV(buf)), "coap_opt_size equals RFC header size + value length");
  MUSTFAIL(r != 65804u + 5u, "max_reachable");
#endif
}
