/* units opt_len_base / opt_len_csm (-DWHICH=1,2): the per-option length limits applied by the parser (C03) against
 * literal tables written from the RFCs (RFC 7252 5.10 table 4, RFC 7641, RFC 7959, RFC 7967, RFC 8613, RFC 8768,
 * RFC 9175, RFC 9177; signalling options RFC 8323 5.3-5.6). Loop-free: complete over all (number, length) pairs. */
#include "coap3/coap_libcoap_build.h"
#include "spec/vin.h"
#include "src/coap_pdu.c"
#include "src/coap_encode.c"
#include "stubs/base.h"
#include "stubs/mem_havoc.h"
/* min/max value length per option number; options not listed: any length */
#define LIMITS(n, lo, hi) \
  switch (n) { \
  case 1: lo = 0; hi = 8; break;       /* If-Match        opaque 0-8   */ \
  case 3: lo = 1; hi = 255; break;     /* Uri-Host        string 1-255 */ \
  case 4: lo = 1; hi = 8; break;       /* ETag            opaque 1-8   */ \
  case 5: lo = 0; hi = 0; break;       /* If-None-Match   empty        */ \
  case 6: lo = 0; hi = 3; break;       /* Observe         uint 0-3     */ \
  case 7: lo = 0; hi = 2; break;       /* Uri-Port        uint 0-2     */ \
  case 8: lo = 0; hi = 255; break;     /* Location-Path   string 0-255 */ \
  case 9: lo = 0; hi = 255; break;     /* OSCORE          opaque 0-255 */ \
  case 11: lo = 0; hi = 255; break;    /* Uri-Path        string 0-255 */ \
  case 12: lo = 0; hi = 2; break;      /* Content-Format  uint 0-2     */ \
  case 14: lo = 0; hi = 4; break;      /* Max-Age         uint 0-4     */ \
  case 15: lo = 0; hi = 255; break;    /* Uri-Query       string 0-255 */ \
  case 16: lo = 1; hi = 1; break;      /* Hop-Limit       uint 1       */ \
  case 17: lo = 0; hi = 2; break;      /* Accept          uint 0-2     */ \
  case 20: lo = 0; hi = 255; break;    /* Location-Query  string 0-255 */ \
  case 23: lo = 0; hi = 3; break;      /* Block2          uint 0-3     */ \
  case 27: lo = 0; hi = 3; break;      /* Block1          uint 0-3     */ \
  case 28: lo = 0; hi = 4; break;      /* Size2           uint 0-4     */ \
  case 35: lo = 1; hi = 1034; break;   /* Proxy-Uri       string 1-1034*/ \
  case 39: lo = 1; hi = 255; break;    /* Proxy-Scheme    string 1-255 */ \
  case 60: lo = 0; hi = 4; break;      /* Size1           uint 0-4     */ \
  case 252: lo = 0; hi = 40; break;    /* Echo            opaque 0-40 (libcoap accepts 0) */ \
  case 258: lo = 0; hi = 1; break;     /* No-Response     uint 0-1     */ \
  case 292: lo = 0; hi = 8; break;     /* Request-Tag     opaque 0-8   */ \
  default: lo = 0; hi = 65535; }
void harness(void) {
  coap_pdu_t *pdu = malloc(sizeof(*pdu)); ASSUME(pdu != NULL);
  IN_SCALAR(uint16_t, number); IN_SCALAR(uint16_t, len); IN_SCALAR(uint8_t, code);
  pdu->max_opt = number; pdu->code = code;
#if WHICH == 1
  int r = coap_pdu_parse_opt_base(pdu, len);
  unsigned lo, hi; LIMITS(number, lo, hi);
  CHECK((r != 0) == (len >= lo && len <= hi), "the parser accepts an option value length exactly when it is within the limits the RFCs define for that option number");
  MUSTFAIL(r, "reject_reachable"); MUSTFAIL(!r, "accept_reachable");
#else
  int r = coap_pdu_parse_opt_csm(pdu, len);
  /* RFC 8323: CSM 7.01: Max-Message-Size(2) uint 0-4, Block-Wise-Transfer(4) empty, (RFC 8974) Extended-Token-Length(6) uint 0-3;
   * Ping/Pong 7.02/7.03: Custody(2) empty; Release 7.04: Alternative-Address(2) string 1-255, Hold-Off(4) uint 0-3;
   * Abort 7.05: Bad-CSM-Option(2) uint 0-2; unknown critical (odd) signalling options are rejected, elective ones ignored */
  int ok = 1;
  if (code == 0xE1) ok = number == 2 ? len <= 4 : number == 4 ? len == 0 : number == 6 ? len <= 3 : !(number & 1);
  else if (code == 0xE2 || code == 0xE3) ok = number == 2 ? len == 0 : !(number & 1);
  else if (code == 0xE4) ok = number == 2 ? (len >= 1 && len <= 255) : number == 4 ? len <= 3 : !(number & 1);
  else if (code == 0xE5) ok = number == 2 ? len <= 2 : !(number & 1);
  CHECK((r != 0) == ok, "signalling options: lengths per RFC 8323 5.3-5.6 / RFC 8974, unknown critical options rejected");
  MUSTFAIL(r, "reject_reachable"); MUSTFAIL(!r, "accept_reachable");
#endif
}
