/* unit lock_wrappers: every COAP_API wrapper (generated per wrapper by engine/gen_lockwrap.py from the current sources) */
#include VERIF_GEN_FILE
