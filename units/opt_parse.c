/* unit opt_parse: coap_opt_parse against the RFC 7252 3.1 grammar (C03 P1, C02, C01 decoder half) */
#include "coap3/coap_libcoap_build.h"
#include "spec/vin.h"
#include "spec/c_option.h"
#include "src/coap_option.c"
#include "stubs/base.h"
#include "stubs/mem_havoc.h"
#ifndef CAPW
#define CAPW 24
#endif
void harness(void) {
  IN_SCALAR(size_t, length);
  IN_BUF(buf, length, CAPW);
  coap_option_t res;
  size_t r = coap_opt_parse(buf, length, &res);
  CHECK(POST_OPT_PARSE_ACCEPT(r, buf, length), "coap_opt_parse accepts exactly the RFC 7252 3.1 well-formed options");
  CHECK(POST_OPT_PARSE_VALUE(r, buf, length, &res), "coap_opt_parse reports delta, length and value as on the wire");
  MUSTFAIL(r == 0, "accept_reachable");
  MUSTFAIL(r != 0, "reject_reachable");
  MUSTFAIL(0, "end_reachable");
}
