/* units wk_match_b / wk_print_link_b (bounded tier, -DWHICH=1,2): C20 */
#include "coap3/coap_libcoap_build.h"
#include "spec/vin.h"
#include "src/coap_resource.c"
#include "stubs/base.h"
#include "stubs/mem_loops.h"
#define MIN_(a, b) ((a) < (b) ? (a) : (b))
#if WHICH == 1
#ifndef TMAX
#define TMAX 10
#endif
#ifndef PMAX
#define PMAX 5
#endif
void harness(void) {
  IN_SCALAR(size_t, tn); IN_SCALAR(size_t, pn); IN_SCALAR(_Bool, prefix); IN_SCALAR(_Bool, substr);
  ASSUME(tn <= TMAX && pn <= PMAX);
  IN_BUF(t, tn, TMAX);
  IN_BUF(p, pn, PMAX);
  coap_str_const_t text = { tn, t }, pattern = { pn, p };
  int r = match(&text, &pattern, prefix, substr);
  /* RFC 6690 4.1 filter semantics: exact, prefix ('*'), and - for rt/if/rel - any space-separated token */
  int whole = (prefix ? pn <= tn : pn == tn);
  for (size_t k = 0; k < PMAX; k++) if (k < pn && k < tn && t[k] != p[k]) whole = 0;
  int anytok = 0;
  for (size_t i = 0; i < TMAX; i++) if (i < tn && (i == 0 || t[i - 1] == ' ')) {
    size_t tl = 0; int open = 1;
    for (size_t j = 0; j < TMAX; j++) if (open && i + j < tn) { if (t[i + j] == ' ') open = 0; else tl++; }
    int m = (prefix ? pn <= tl : pn == tl);
    for (size_t k = 0; k < PMAX; k++) if (k < pn && k < tl && t[i + k] != p[k]) m = 0;
    if (m) anytok = 1;
  }
  /* (a pattern is never empty when it reaches match(): the caller strips '*' from a non-empty value) */
  CHECK(pn == 0 || tn == 0 || (r != 0) == (substr ? anytok : whole), "match(): exact / prefix / space-separated-token matching as in RFC 6690 4.1");
  MUSTFAIL(!(r && substr && prefix), "token_prefix_match_reachable");
  MUSTFAIL(r, "nomatch_reachable");
}
#elif WHICH == 2
#ifndef PATHMAX
#define PATHMAX 5
#endif
#ifndef ATTMAX
#define ATTMAX 3
#endif
#ifndef BMAX
#define BMAX 24
#endif
void harness(void) {
  IN_SCALAR(size_t, path_len); IN_SCALAR(size_t, name_len); IN_SCALAR(size_t, value_len);
  IN_SCALAR(_Bool, has_attr); IN_SCALAR(_Bool, has_value); IN_SCALAR(_Bool, obs); IN_SCALAR(_Bool, osc);
  IN_SCALAR(size_t, B); IN_SCALAR(size_t, o0); IN_SCALAR(size_t, g);
  IN_BYTES(path, PATHMAX); IN_BYTES(name, ATTMAX); IN_BYTES(value, ATTMAX);
  ASSUME(path_len <= PATHMAX && name_len <= ATTMAX && value_len <= ATTMAX && B <= BMAX && o0 <= 48);
  coap_resource_t res; coap_attr_t attr; coap_str_const_t sp = { path_len, path.b }, sn = { name_len, name.b }, sv = { value_len, value.b };
#ifdef VERIF_NATIVE
  memset(&res, 0, sizeof res);
#endif
  res.uri_path = &sp; res.link_attr = has_attr ? &attr : NULL; res.observable = obs; res.flags = osc ? COAP_RESOURCE_FLAGS_OSCORE_ONLY : 0;
  attr.next = NULL; attr.name = &sn; attr.value = has_value ? &sv : NULL; attr.flags = 0;
  IN_BUF(buf, B, BMAX);
  size_t len = B, offset = o0;
  coap_print_status_t r = coap_print_link(&res, buf, &len, &offset);
  /* independent definition of the full RFC 6690 link: character k of  </path>;name[=value][;obs][;osc] */
  size_t a_len = has_attr ? 1 + name_len + (has_value ? 1 + value_len : 0) : 0;
  size_t L = 3 + path_len + a_len + (obs ? 4 : 0) + (osc ? 4 : 0);
  size_t k = o0 + g;                                  /* stream index of output byte g */
  size_t ka = 3 + path_len, ko = ka + a_len, kc = ko + (obs ? 4 : 0);
  uint8_t want =
      k == 0 ? '<' : k == 1 ? '/' : k < 2 + path_len ? path.b[k - 2] : k == 2 + path_len ? '>' :
      k < ko ? (k == ka ? ';' : k < ka + 1 + name_len ? name.b[k - ka - 1] : k == ka + 1 + name_len ? '=' : value.b[k - ka - 2 - name_len]) :
      k < kc ? ";obs"[k - ko] : ";osc"[(k - kc) & 3];
  size_t skipped = MIN_(o0, L), written = MIN_(B, L - skipped);
  CHECK(len == L, "coap_print_link reports the exact total length of the link");
  CHECK(COAP_PRINT_OUTPUT_LENGTH(r) == written && !(r & COAP_PRINT_STATUS_ERROR), "coap_print_link writes exactly the window [offset, offset+buflen) of the link");
  CHECK(offset == (B == 0 ? o0 : o0 - skipped), "coap_print_link consumes the offset by the number of skipped characters (an empty buffer only measures)");
  CHECK(B == 0 || (((r & COAP_PRINT_STATUS_TRUNC) != 0) == (skipped + written < L)), "for a non-empty buffer the truncation flag is set exactly when link text remains beyond the window");
  CHECK(g >= written || buf[g] == want, "every byte written is the corresponding character of the full link");
  MUSTFAIL(!(written == B && B > 3 && o0 > 4 && has_value && (r & COAP_PRINT_STATUS_TRUNC)), "middle_window_reachable");
  MUSTFAIL(!(o0 + B == L && B > 0), "window_ends_at_end_reachable");
}
#elif WHICH == 3
/* unit wk_print_wellknown_b: coap_print_wellknown_lkd over a resource table of 0..2 resources, no query filter: the window
 * [offset, offset+buflen) of the comma-separated listing, total length, truncation flag; the application's own
 * ".well-known/core" resource is left out.  coap_print_link is the real body. */
#ifndef PATHMAX
#define PATHMAX 3
#endif
#ifndef BMAX
#define BMAX 14
#endif
static uint8_t link_char(const uint8_t *path, size_t pl, int obs, size_t k) {   /* character k of  </path>[;obs] */
  return k == 0 ? '<' : k == 1 ? '/' : k < 2 + pl ? path[k - 2] : k == 2 + pl ? '>' : ";obs"[(k - 3 - pl) & 3];
}
void harness(void) {
  static coap_context_t ctx_o; static coap_resource_t r0, r1; static coap_str_const_t sp0, sp1;
  coap_context_t *ctx = &ctx_o; coap_resource_t *const res[2] = { &r0, &r1 }; coap_str_const_t *const sp[2] = { &sp0, &sp1 };
  IN_SCALAR(uint8_t, nres); IN_SCALAR(size_t, pl0); IN_SCALAR(size_t, pl1); IN_SCALAR(_Bool, obs0); IN_SCALAR(_Bool, obs1); IN_SCALAR(_Bool, wk0);
  IN_SCALAR(size_t, B); IN_SCALAR(size_t, o0); IN_SCALAR(size_t, g);
  IN_BYTES(path0, PATHMAX); IN_BYTES(path1, PATHMAX);
  ASSUME(nres <= 2 && pl0 <= PATHMAX && pl1 <= PATHMAX && B <= BMAX && o0 <= 24);
  const size_t pl[2] = { pl0, pl1 }; const _Bool obs[2] = { obs0, obs1 }; const uint8_t *const pb[2] = { path0.b, path1.b };
  for (int i = 0; i < 2; i++) {
#ifdef VERIF_NATIVE
    memset(res[i], 0, sizeof(coap_resource_t));
#endif
    res[i]->hh.next = (i + 1 < nres) ? res[1] : NULL; res[i]->uri_path = sp[i]; res[i]->link_attr = NULL; res[i]->observable = obs[i]; res[i]->flags = 0;
    sp[i]->s = pb[i]; sp[i]->length = pl[i];
  }
  if (wk0) { sp0.s = (const uint8_t *)COAP_DEFAULT_URI_WELLKNOWN; sp0.length = sizeof(COAP_DEFAULT_URI_WELLKNOWN) - 1; }
  ctx->resources = nres ? res[0] : NULL;
  IN_BUF_FIXED(buf, BMAX);      /* constant-size object (a symbolic-size one ran out of memory); bytes beyond B are checked to be untouched */
  IN_SCALAR(size_t, h); ASSUME(h < BMAX); const uint8_t old_h = buf[h];
  size_t buflen = B;
  coap_print_status_t r = coap_print_wellknown_lkd(ctx, buf, &buflen, o0, NULL);
  /* independent definition of the listing: the links of the listed resources separated by ',' */
  int listed0 = nres >= 1 && !wk0, listed1 = nres >= 2;
  size_t L0 = listed0 ? 3 + pl0 + (obs0 ? 4 : 0) : 0, L1 = listed1 ? 3 + pl1 + (obs1 ? 4 : 0) : 0, sep = (listed0 && listed1) ? 1 : 0;
  size_t L = L0 + sep + L1;
  size_t k = o0 + g;
  uint8_t want = k < L0 ? link_char(path0.b, pl0, obs0, k) : (sep && k == L0) ? ',' : link_char(path1.b, pl1, obs1, k - L0 - sep);
  size_t skipped = MIN_(o0, L), written = MIN_(B, L - skipped);
  CHECK(!(r & COAP_PRINT_STATUS_ERROR), "no error for a listing that fits the status word");
  CHECK(buflen == L, "coap_print_wellknown_lkd reports the exact total length of the listing (separators included, the application's .well-known/core resource left out)");
  CHECK(COAP_PRINT_OUTPUT_LENGTH(r) == written, "exactly the window [offset, offset+buflen) of the listing is written");
  CHECK(B == 0 || (((r & COAP_PRINT_STATUS_TRUNC) != 0) == (skipped + written < L)), "for a non-empty buffer the truncation flag is set exactly when listing remains beyond the window");
  CHECK(g >= written || buf[g] == want, "every byte written is the corresponding character of the full listing");
  CHECK(h < written || buf[h] == old_h, "nothing is written beyond the window (in particular not beyond the buffer length given)");
  MUSTFAIL(!(written == B && B > 2 && o0 > L0 && listed0 && listed1 && (r & COAP_PRINT_STATUS_TRUNC)), "window_in_second_link_reachable");
  MUSTFAIL(!(o0 + B == L && B > 0 && sep), "window_ends_at_end_reachable"); MUSTFAIL(!(wk0 && nres == 2 && written > 0), "wellknown_skipped_reachable");
}
#endif
