/* units update_option_s / insert_option_s / remove_option_s (-DWHICH=1..3): SHAPE contracts of the in-place option
 * editors (C04, C01): where things are and how long they are after the edit, frame, refusal changes nothing.
 * Proof-tier memory model (mem* = asserted ranges + havoc, buffer sizes symbolic); bounded in ONE dimension only:
 * the message holds at most 3 options (iterator loops unwound 4 times with unwinding assertions).
 * Which BYTE ends up where is the job of the bounded model-equality units (edit_options.c). */
#include "coap3/coap_libcoap_build.h"
#include "spec/vin.h"
#define KMAX 3
#ifndef PDU_MAXA
#define PDU_MAXA 70000
#endif
#include "spec/c_option.h"
#include "spec/c_pdu.h"
#include "spec/optlist_model.h"
#include "src/coap_pdu.c"
#include "src/coap_option.c"
#include "src/coap_encode.c"
#include "stubs/base.h"
#include "stubs/mem_havoc.h"
void harness(void) {
  HARNESS_PDU(pdu);
  ASSUME(max_size != 0);
  pdu->hdr_size = 0; pdu->session = NULL;
  IN_SCALAR(uint16_t, number); IN_SCALAR(size_t, len); IN_SCALAR(size_t, g);
  ASSUME(len <= 1034);                                   /* the largest value length any defined option allows */
  IN_BUF(val, len, 16);
  struct optlist_m pre;
  size_t opt_end = data_off ? data_off - 1 : used_size;
  ASSUME(spec_decode_options(pdu->token, pdu->e_token_length, opt_end, &pre));
  ASSUME(pre.stop == opt_end && (!data_off || pdu->token[opt_end] == 0xFF));
  ASSUME(max_opt == (pre.n ? pre.o[pre.n - 1].num : 0));
  ASSUME(g < used_size);
  const uint8_t old_g = pdu->token[g];                  /* ghost byte */
  const size_t old_etkl = pdu->e_token_length;
  G_old_doff = data_off;
  int jeq = -1, jgt = -1;
  for (int i = KMAX - 1; i >= 0; i--) if (i < pre.n) { if (pre.o[i].num == number) jeq = i; if (pre.o[i].num > number) jgt = i; }
#define OPTSZ(i) (((i) + 1 < pre.n ? pre.o[(i) + 1].pos : pre.stop) - pre.o[i].pos)
#define DELTA_OF(i) (pre.o[i].num - ((i) ? pre.o[(i) - 1].num : 0))
  uint8_t *old_token = pdu->token;
#if WHICH == 1
  ASSUME(jeq >= 0);
  size_t r = coap_update_option(pdu, number, len, val);
  size_t newsz = HDRSZ(DELTA_OF(jeq), len) + len, oldsz = OPTSZ(jeq);
  CHECK(r == 0 || r == 1, "coap_update_option returns 0 or 1");
  CHECK(!r || (pdu->used_size == used_size - oldsz + newsz && pdu->used_size <= pdu->alloc_size && pdu->alloc_size <= pdu->max_size), "coap_update_option: the message grows/shrinks by exactly the difference of the encoded sizes of the named option (header extension bytes included)");
  CHECK(!r || (data_off ? (pdu->data != NULL && (size_t)(pdu->data - pdu->token) == data_off - oldsz + newsz) : pdu->data == NULL), "coap_update_option: the payload moves by the same amount");
  CHECK(!r || (pdu->max_opt == max_opt && pdu->e_token_length == old_etkl), "coap_update_option keeps the token and the highest option number");
  CHECK(r || (pdu->used_size == used_size && (pdu->token != old_token || pdu->token[g] == old_g) && (data_off ? (size_t)(pdu->data - pdu->token) == data_off : pdu->data == NULL)), "coap_update_option: a refused update changes neither sizes nor any byte of the message");
  MUSTFAIL(!(r && newsz > oldsz + 1 && data_off), "grow_across_threshold_reachable"); MUSTFAIL(!(r && newsz + 1 < oldsz), "shrink_reachable"); MUSTFAIL(r, "refusal_reachable");
#elif WHICH == 2
  ASSUME(number < max_opt);
  size_t r = coap_insert_option(pdu, number, len, val);
  uint32_t prev = jgt > 0 ? pre.o[jgt - 1].num : 0;
  size_t newsz = HDRSZ(number - prev, len) + len;
  /* the follower's header: delta was (num - prev), becomes (num - number): it may shrink by 0, 1 or 2 bytes */
  size_t shrink = EXTSZ(pre.o[jgt].num - prev) - EXTSZ(pre.o[jgt].num - number);
  CHECK(r == 0 || r == newsz, "coap_insert_option returns the encoded size of the inserted option");
  CHECK(!r || (pdu->used_size == used_size + newsz - shrink && pdu->used_size <= pdu->alloc_size && pdu->alloc_size <= pdu->max_size), "coap_insert_option: the message grows by the new option minus the header bytes the follower no longer needs");
  CHECK(!r || (data_off ? (pdu->data != NULL && (size_t)(pdu->data - pdu->token) == data_off + newsz - shrink) : pdu->data == NULL), "coap_insert_option: the payload moves by the same amount");
  CHECK(!r || (pdu->max_opt == max_opt && pdu->e_token_length == old_etkl), "coap_insert_option keeps the token and the highest option number");
  CHECK(r || (pdu->used_size == used_size && (pdu->token != old_token || pdu->token[g] == old_g) && (data_off ? (size_t)(pdu->data - pdu->token) == data_off : pdu->data == NULL)), "coap_insert_option: a refused insertion disturbs neither sizes nor any byte of the message already present");
  MUSTFAIL(!(r && shrink == 2), "follower_shrinks_by_two_reachable"); MUSTFAIL(r, "refusal_reachable"); MUSTFAIL(!(r && data_off && jgt == 1), "middle_with_payload_reachable");
#else
  int r = coap_remove_option(pdu, number);
  CHECK(r == (jeq >= 0), "coap_remove_option succeeds iff an option with that number exists");
  if (r) {
    size_t oldsz = OPTSZ(jeq);
    /* the follower's delta becomes the sum of both deltas: its header may grow by 0, 1 or 2 bytes */
    size_t grow = jeq + 1 < pre.n ? EXTSZ(pre.o[jeq + 1].num - (jeq ? pre.o[jeq - 1].num : 0)) - EXTSZ(DELTA_OF(jeq + 1)) : 0;
    CHECK(pdu->used_size == used_size - oldsz + grow && pdu->used_size <= pdu->alloc_size, "coap_remove_option: the message shrinks by the removed option minus the header bytes the follower needs in addition");
    CHECK(data_off ? (pdu->data != NULL && (size_t)(pdu->data - pdu->token) == data_off - oldsz + grow) : pdu->data == NULL, "coap_remove_option: the payload moves by the same amount");
    CHECK(pdu->max_opt == (jeq + 1 < pre.n ? max_opt : (jeq ? pre.o[jeq - 1].num : 0)) && pdu->e_token_length == old_etkl, "coap_remove_option: max_opt changes only when the last option goes away");
  } else {
    CHECK(pdu->used_size == used_size && pdu->token == old_token && pdu->token[g] == old_g && pdu->max_opt == max_opt, "coap_remove_option: nothing changes when the option is absent");
  }
  MUSTFAIL(!(r && jeq == 0 && pre.n == 3 && data_off), "remove_first_of_three_reachable"); MUSTFAIL(r, "absent_reachable");
#endif
}
