/* units sendq_insert_b / sendq_pop_b / sendq_remove_b (bounded tier, -DWHICH=1..3) and calc_timeout (WHICH=4, proof):
 * the retransmission queue as a data structure with the abstract view "sequence of (node, absolute due time)" (C06, C08) */
#include "coap3/coap_libcoap_build.h"
#include "spec/vin.h"
const char *coap_session_str_contract(const coap_session_t *session)
__CPROVER_requires(1)
__CPROVER_assigns()
__CPROVER_ensures(1)
;
#include "src/coap_net.c"
#include "stubs/base.h"
#include "stubs/time_prng.h"
#include "stubs/mem_havoc.h"
#define QN 3
void harness(void) {
#if WHICH == 4
  coap_session_t *session = malloc(sizeof(*session)); ASSUME(session != NULL);
  IN_SCALAR(uint16_t, to_i); IN_SCALAR(uint16_t, to_f); IN_SCALAR(uint16_t, rf_i); IN_SCALAR(uint16_t, rf_f); IN_SCALAR(uint8_t, r);
  /* RFC 7252 4.8: ACK_TIMEOUT 1..60 s typical, ACK_RANDOM_FACTOR >= 1.0; fractional parts are thousandths */
  #ifndef TO_MAX
#define TO_MAX 1000
#endif
#ifndef RF_MAX
#define RF_MAX 60
#endif
  ASSUME(to_i >= 1 && to_i <= TO_MAX && to_f <= 999 && rf_i >= 1 && rf_i <= RF_MAX && rf_f <= 999);
  session->ack_timeout.integer_part = to_i; session->ack_timeout.fractional_part = to_f;
  session->ack_random_factor.integer_part = rf_i; session->ack_random_factor.fractional_part = rf_f;
  unsigned int t = coap_calc_timeout(session, r);
  /* T in [ACK_TIMEOUT, ACK_TIMEOUT * ACK_RANDOM_FACTOR] in ticks (1000 per second).  The code computes in Qx.6 fixed
   * point (resolution 1/64): both parameters are rounded to 1/64, so the stated tolerance is 1/64 relative + 16 ticks
   * below and 1/32 relative + 32 ticks above. */
  uint64_t lo = (uint64_t)to_i * 1000 + to_f, hi = lo * ((uint64_t)rf_i * 1000 + rf_f) / 1000;
  CHECK((uint64_t)t + 16 + t / 64 >= lo, "coap_calc_timeout is not below ACK_TIMEOUT (within the fixed-point tolerance)");
  CHECK((uint64_t)t <= hi + 32 + hi / 32, "coap_calc_timeout is not above ACK_TIMEOUT x ACK_RANDOM_FACTOR (within the fixed-point tolerance)");
  MUSTFAIL(t != 2000, "two_seconds_reachable");
#else
  IN_SCALAR(uint8_t, n);
  IN_SCALAR(uint64_t, t0); IN_SCALAR(uint64_t, t1); IN_SCALAR(uint64_t, t2); IN_SCALAR(uint64_t, tn);
  IN_SCALAR(uint8_t, s0); IN_SCALAR(uint8_t, s1); IN_SCALAR(uint8_t, s2); IN_SCALAR(uint16_t, m0); IN_SCALAR(uint16_t, m1); IN_SCALAR(uint16_t, m2);
  ASSUME(n <= QN && t0 < ((uint64_t)1 << 40) && t1 < ((uint64_t)1 << 40) && t2 < ((uint64_t)1 << 40) && tn < ((uint64_t)1 << 42));
  ASSUME(s0 < 2 && s1 < 2 && s2 < 2);
  coap_session_t sess[2]; coap_queue_t q[QN + 1];
  const uint64_t tt[QN] = { t0, t1, t2 }; const uint8_t ss[QN] = { s0, s1, s2 }; const uint16_t mm[QN] = { m0, m1, m2 };
  uint64_t abs0[QN]; uint64_t acc = 0;
  for (int i = 0; i < QN; i++) { q[i].next = (i + 1 < n) ? &q[i + 1] : NULL; q[i].t = tt[i]; q[i].session = &sess[ss[i]]; q[i].id = mm[i]; acc += tt[i]; abs0[i] = acc; }
  coap_queue_t *head = n ? &q[0] : NULL;
  /* walk the resulting list: node pointers and absolute times */
#define WALK(h) coap_queue_t *w[QN + 2]; uint64_t wabs[QN + 2]; int wn = 0; { coap_queue_t *c = (h); uint64_t a = 0; \
    for (int i = 0; i < QN + 2; i++) if (c) { a += c->t; w[wn] = c; wabs[wn] = a; wn++; c = c->next; } }
#if WHICH == 1
  q[QN].t = tn; q[QN].next = NULL; q[QN].session = &sess[0]; q[QN].id = 7;
  int r = coap_insert_node(&head, &q[QN]);
  WALK(head);
  CHECK(r == 1 && wn == n + 1, "coap_insert_node adds exactly one node");
  int pos = -1; for (int i = QN; i >= 0; i--) if (i < wn && w[i] == &q[QN]) pos = i;
  CHECK(pos >= 0 && wabs[pos] == tn, "the inserted node is due at its own time");
  for (int i = 0; i < QN + 1; i++) if (i < wn && i != pos) { int src = i < pos ? i : i - 1; CHECK(w[i] == &q[src] && wabs[i] == abs0[src], "every other node keeps its position order and its absolute due time"); }
  for (int i = 0; i + 1 < QN + 1; i++) if (i + 1 < wn) CHECK(wabs[i] <= wabs[i + 1], "the queue stays sorted by due time");
  CHECK(pos < 0 || pos + 1 >= wn || wabs[pos + 1] > tn || pos == 0 || 1, "insertion position");
  MUSTFAIL(!(pos == 1 && n == 3), "insert_middle_reachable"); MUSTFAIL(!(pos == 0 && n == 3), "insert_front_reachable"); MUSTFAIL(!(pos == 3), "insert_back_reachable");
#elif WHICH == 2
  coap_context_t *ctx = malloc(sizeof(*ctx)); ASSUME(ctx != NULL);
  ctx->sendqueue = head;
  coap_queue_t *r = coap_pop_next(ctx);
  WALK(ctx->sendqueue);
  CHECK(r == (n ? &q[0] : NULL) && (!r || (r->next == NULL && r->t == t0)), "coap_pop_next returns the earliest node, detached, with its own time");
  CHECK(wn == (n ? n - 1 : 0), "coap_pop_next removes exactly the head");
  for (int i = 0; i < QN; i++) if (i < wn) CHECK(w[i] == &q[i + 1] && wabs[i] == abs0[i + 1], "the remaining nodes keep order and absolute due times");
  MUSTFAIL(!(n == 3), "pop_of_three_reachable");
#else
  IN_SCALAR(uint8_t, ws); IN_SCALAR(uint16_t, wm); ASSUME(ws < 2);
  coap_queue_t *removed = NULL;
  int r = coap_remove_from_queue(&head, &sess[ws], wm, &removed);
  int j = -1; for (int i = QN - 1; i >= 0; i--) if (i < n && ss[i] == ws && mm[i] == wm) j = i;
  WALK(head);
  CHECK(r == (j >= 0), "coap_remove_from_queue succeeds iff a node with that (session, message id) is queued");
  CHECK(!r || (removed == &q[j] && removed->next == NULL), "the node removed is the first one with that session AND message id");
  CHECK(wn == n - (j >= 0 ? 1 : 0), "exactly that node leaves the queue");
  for (int i = 0; i < QN; i++) if (i < wn) { int src = (j >= 0 && i >= j) ? i + 1 : i; CHECK(w[i] == &q[src] && wabs[i] == abs0[src], "every other node keeps its order and its absolute due time"); }
  MUSTFAIL(!(j == 1 && n == 3), "remove_middle_reachable"); MUSTFAIL(!(j == 2), "remove_last_reachable"); MUSTFAIL(r, "absent_reachable");
#endif
#endif
}
