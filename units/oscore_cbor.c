/* units oscore_cbor_uint / oscore_cbor_heads (-DWHICH=1,2): the CBOR primitives the OSCORE AAD / info structures are built from (C14),
 * against RFC 8949 section 3 written as spec: oscore_cbor_put_unsigned produces the shortest-form head of major type 0 for EVERY
 * 64-bit value, advances the write pointer and the space counter by exactly that size, and the real decoder
 * (oscore_cbor_get_next_element / oscore_cbor_get_unsigned_integer) reads the same value back consuming the same bytes;
 * the array / bytes / text / map / tag / negative heads are the same head with the major-type bits of RFC 8949 3.1.
 * Loop-free except for loops bounded by the width of the argument (<= 8 bytes): complete. */
#include "coap3/coap_libcoap_build.h"
#include "spec/vin.h"
#include "src/oscore/oscore_cbor.c"
#include "stubs/base.h"
#include "stubs/mem_loops.h"
/* RFC 8949 3: head of an item with major type mt and argument v */
#define CB_HEADSZ(v) ((v) < 24u ? 1u : (v) < 0x100u ? 2u : (v) < 0x10000u ? 3u : (v) < 0x100000000ull ? 5u : 9u)
#define CB_AI(v) ((v) < 24u ? (uint8_t)(v) : (v) < 0x100u ? 24u : (v) < 0x10000u ? 25u : (v) < 0x100000000ull ? 26u : 27u)
static int head_ok(const uint8_t *b, unsigned mt, uint64_t v) {
  unsigned hs = CB_HEADSZ(v);
  if (b[0] != (uint8_t)((mt << 5) | CB_AI(v))) return 0;
  uint64_t r = 0; for (unsigned i = 1; i < 9; i++) if (i < hs) r = (r << 8) | b[i];      /* network byte order */
  return hs == 1 || r == v;
}
void harness(void) {
  static uint8_t buf[24]; uint8_t *p = buf; size_t room = sizeof(buf);
  IN_SCALAR(uint64_t, v);
#if WHICH == 1
  size_t n = oscore_cbor_put_unsigned(&p, &room, v);
  CHECK(n == CB_HEADSZ(v) && p == buf + n && room == sizeof(buf) - n, "oscore_cbor_put_unsigned uses the shortest RFC 8949 form and advances pointer and space counter by exactly its size");
  CHECK(head_ok(buf, 0, v), "the bytes written are the RFC 8949 head of the unsigned integer (major type 0, argument in network byte order)");
  const uint8_t *q = buf; size_t len = n;
  CHECK(oscore_cbor_get_next_element(&q, &len) == CBOR_UNSIGNED_INTEGER, "the decoder sees an unsigned integer");
  uint64_t back = oscore_cbor_get_unsigned_integer(&q, &len);
  CHECK(back == v && q == buf + n && len == 0, "the real decoder reads the same value back and consumes exactly the bytes written (round trip for every 64-bit value)");
  MUSTFAIL(!(v > 0xffffffffull), "eight_byte_form_reachable");
#else
  IN_SCALAR(uint8_t, kind); ASSUME(kind <= 5);
  static const uint8_t content[4] = { 1, 2, 3, 4 }; size_t n; unsigned mt; uint64_t arg = v; size_t extra = 0;
  switch (kind) {
  case 0: n = oscore_cbor_put_array(&p, &room, v); mt = 4; break;
  case 1: n = oscore_cbor_put_map(&p, &room, v); mt = 5; break;
  case 2: n = oscore_cbor_put_tag(&p, &room, v); mt = 6; break;
  case 3: ASSUME(v >= 1 && v <= (uint64_t)INT64_MAX); n = oscore_cbor_put_negative(&p, &room, (int64_t)v); mt = 1; arg = v - 1; break;   /* -v is encoded as argument v-1 */
  case 4: ASSUME(v <= 4); n = oscore_cbor_put_bytes(&p, &room, content, v); mt = 2; extra = v; break;
  default: ASSUME(v <= 4); n = oscore_cbor_put_text(&p, &room, (const char *)content, v); mt = 3; extra = v; break;
  }
  CHECK(n == CB_HEADSZ(arg) + extra && p == buf + n && room == sizeof(buf) - n, "head size (+ content) as in RFC 8949; pointer and space counter advance by exactly that");
  CHECK(head_ok(buf, mt, arg), "the head carries the major type of RFC 8949 3.1 (array 4, map 5, tag 6, negative 1, bytes 2, text 3) and the argument in shortest form");
  for (size_t i = 0; i < 4; i++) if (i < extra) CHECK(buf[CB_HEADSZ(arg) + i] == content[i], "byte / text string content follows the head unchanged");
  MUSTFAIL(!(kind == 3), "negative_reachable"); MUSTFAIL(!(kind == 4 && v == 4), "bytes_reachable");
#endif
}
