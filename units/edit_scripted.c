/* units insert_option_p / remove_option_p (-DWHICH=1,2): SHAPE contracts of coap_insert_option / coap_remove_option
 * (C04, C01) with all buffer sizes symbolic.  The option iterator is replaced by a ghost contract that enumerates the
 * options the harness laid out (at most 3, at harness-chosen offsets that stay valid across realloc): this is the
 * relational contract proved for coap_option_next (unit option_next) applied to a well-formed options region - an
 * ASSUMED composition, listed as such.  coap_opt_parse, coap_opt_encode, the growth functions are the real bodies. */
#include "coap3/coap_libcoap_build.h"
#include "spec/vin.h"
#ifndef PDU_MAXA
#define PDU_MAXA 70000
#endif
#include "spec/c_option.h"
#include "spec/c_pdu.h"
#define SN 3
const coap_pdu_t *G_pdu; int G_it, G_sn; size_t G_soff[SN]; uint16_t G_snum[SN]; int G_add_calls;
coap_opt_iterator_t *coap_option_iterator_init_contract(const coap_pdu_t *pdu, coap_opt_iterator_t *oi, const coap_opt_filter_t *filter)
__CPROVER_requires(__CPROVER_w_ok(oi, sizeof(*oi)) && filter == NULL)
__CPROVER_assigns(*oi, G_it)
__CPROVER_ensures(G_it == 0 && __CPROVER_return_value == oi)
;
coap_opt_t *coap_option_next_contract2(coap_opt_iterator_t *oi)
__CPROVER_requires(__CPROVER_w_ok(oi, sizeof(*oi)) && G_it >= 0 && G_it <= SN)
__CPROVER_assigns(*oi, G_it)
__CPROVER_ensures(__CPROVER_old(G_it) < G_sn ? (G_it == __CPROVER_old(G_it) + 1 && __CPROVER_return_value == G_pdu->token + G_soff[G_it - 1] && oi->number == G_snum[G_it - 1])
                                            : (G_it == __CPROVER_old(G_it) && __CPROVER_return_value == NULL))
;
size_t coap_add_option_internal_contract2(coap_pdu_t *pdu, coap_option_num_t number, size_t len, const uint8_t *data)
__CPROVER_requires(1) __CPROVER_assigns(G_add_calls) __CPROVER_ensures(G_add_calls == __CPROVER_old(G_add_calls) + 1 && __CPROVER_return_value <= MAXOPTLEN + 5);
size_t coap_insert_option_unit_contract(coap_pdu_t *pdu, coap_option_num_t number, size_t len, const uint8_t *data)
__CPROVER_requires(PDU_WF_MEM(pdu) && PDU_WF_SCALAR(pdu) && len <= MAXOPTLEN && (data == NULL || __CPROVER_r_ok(data, len)))
__CPROVER_assigns(*pdu, __CPROVER_object_whole(pdu->token), G_it, G_add_calls)
__CPROVER_frees(pdu_block_freeable(pdu))
__CPROVER_ensures(__CPROVER_return_value <= MAXOPTLEN + 5);
int coap_remove_option_unit_contract(coap_pdu_t *pdu, coap_option_num_t number)
__CPROVER_requires(PDU_WF_MEM(pdu) && PDU_WF_SCALAR(pdu))
__CPROVER_assigns(*pdu, __CPROVER_object_whole(pdu->token), G_it)
__CPROVER_frees(pdu_block_freeable(pdu))
__CPROVER_ensures(__CPROVER_return_value == 0 || __CPROVER_return_value == 1);
#include "src/coap_pdu.c"
#include "src/coap_option.c"
#include "src/coap_encode.c"
#include "stubs/base.h"
#include "stubs/mem_havoc.h"
void harness(void) {
  HARNESS_PDU(pdu);
  ASSUME(max_size != 0);
  pdu->hdr_size = 0; pdu->session = NULL;
  IN_SCALAR(uint16_t, number); IN_SCALAR(size_t, len); IN_SCALAR(uint8_t, sn); IN_SCALAR(size_t, g);
  ASSUME(len <= 1034 && sn <= SN);
  IN_BUF(val, len, 16);
  /* lay out sn well-formed options back to back from the token to the payload marker / end */
  size_t opt_end = data_off ? data_off - 1 : used_size;
  size_t p = pdu->e_token_length; uint32_t num = 0; size_t osz[SN]; uint32_t odelta[SN];
  for (int i = 0; i < SN; i++) if (i < sn) {
    ASSUME(p < opt_end && WELLFORMED(pdu->token + p, opt_end - p));
    G_soff[i] = p; odelta[i] = DELTA(pdu->token + p); num += odelta[i]; ASSUME(num <= 65535); G_snum[i] = (uint16_t)num;
    osz[i] = HDR(pdu->token + p) + LENV(pdu->token + p); p += osz[i];
  }
  ASSUME(p == opt_end && (!data_off || pdu->token[opt_end] == 0xFF) && max_opt == num);
  ASSUME(g < used_size);
  const uint8_t old_g = pdu->token[g]; uint8_t *const old_token = pdu->token; const size_t old_etkl = pdu->e_token_length;
  G_pdu = pdu; G_sn = sn; G_it = 0; G_add_calls = 0; G_old_doff = data_off;
  int jeq = -1, jgt = -1;
  for (int i = SN - 1; i >= 0; i--) if (i < sn) { if (G_snum[i] == number) jeq = i; if (G_snum[i] > number) jgt = i; }
#if WHICH == 1
  ASSUME(number < max_opt);
  size_t r = coap_insert_option(pdu, number, len, val);
  uint32_t prev = jgt > 0 ? G_snum[jgt - 1] : 0;
  size_t newsz = HDRSZ(number - prev, len) + len;
  size_t shrink = EXTSZ((uint32_t)G_snum[jgt] - prev) - EXTSZ((uint32_t)G_snum[jgt] - number);
  CHECK(G_add_calls == 0, "an out-of-order option is inserted, not appended");
  CHECK(r == 0 || r == newsz, "coap_insert_option returns the encoded size of the inserted option");
  CHECK(!r || (pdu->used_size == used_size + newsz - shrink && pdu->used_size <= pdu->alloc_size && pdu->alloc_size <= pdu->max_size), "coap_insert_option: the message grows by the new option minus the header bytes the follower no longer needs");
  CHECK(!r || (data_off ? (pdu->data != NULL && (size_t)(pdu->data - pdu->token) == data_off + newsz - shrink) : pdu->data == NULL), "coap_insert_option: the payload moves by the same amount");
  CHECK(!r || (pdu->max_opt == max_opt && pdu->e_token_length == old_etkl), "coap_insert_option keeps the token and the highest option number");
  CHECK(!r || (DELTA(pdu->token + G_soff[jgt]) == number - prev && LENV(pdu->token + G_soff[jgt]) == len), "the inserted option sits where the follower was and decodes to delta = number - previous number and the given length");
  CHECK(r || (pdu->used_size == used_size && (pdu->token != old_token || pdu->token[g] == old_g) && (data_off ? (size_t)(pdu->data - pdu->token) == data_off : pdu->data == NULL)), "coap_insert_option: a refused insertion disturbs neither sizes nor any byte of the message already present");
  MUSTFAIL(!(r && shrink == 2), "follower_shrinks_by_two_reachable"); MUSTFAIL(r, "refusal_reachable"); MUSTFAIL(!(r && data_off && jgt == 1), "middle_with_payload_reachable");
#else
  int r = coap_remove_option(pdu, number);
  CHECK(r == (jeq >= 0), "coap_remove_option succeeds iff an option with that number exists");
  if (r) {
    size_t grow = jeq + 1 < sn ? EXTSZ((uint32_t)G_snum[jeq + 1] - (jeq ? G_snum[jeq - 1] : 0)) - EXTSZ(odelta[jeq + 1]) : 0;
    CHECK(pdu->used_size == used_size - osz[jeq] + grow && pdu->used_size <= pdu->alloc_size, "coap_remove_option: the message shrinks by the removed option minus the header bytes the follower needs in addition");
    CHECK(data_off ? (pdu->data != NULL && (size_t)(pdu->data - pdu->token) == data_off - osz[jeq] + grow) : pdu->data == NULL, "coap_remove_option: the payload moves by the same amount");
    CHECK(pdu->max_opt == (jeq + 1 < sn ? max_opt : (jeq ? G_snum[jeq - 1] : 0)) && pdu->e_token_length == old_etkl, "coap_remove_option: max_opt changes only when the last option goes away");
  } else {
    CHECK(pdu->used_size == used_size && pdu->token == old_token && pdu->token[g] == old_g && pdu->max_opt == max_opt, "coap_remove_option: nothing changes when the option is absent");
  }
  MUSTFAIL(!(r && jeq == 0 && sn == 3 && data_off), "remove_first_of_three_reachable"); MUSTFAIL(r, "absent_reachable");
#endif
}
