/* unit parse_opt_b: coap_pdu_parse_opt as a whole (C03: the decoder accepts exactly the well-formed messages; C02: memory safety of the
 * main loop AND of the diagnostic dump pass, for every log level) on messages of up to CAPM bytes after the header.
 * Plain cbmc (no --dfcc), static objects; next_option_safe, coap_opt_parse, coap_opt_length, the per-option length tables,
 * write_prefix / write_char are the real bodies.  The reference is an independent walk over the bytes with the RFC 7252 3.1 spec
 * macros (spec/rfc7252_opt.h); the per-option length table is taken from the real coap_pdu_parse_opt_base / _csm (proved against the
 * RFC tables by units opt_len_base / opt_len_csm). */
#include "coap3/coap_libcoap_build.h"
#include "spec/vin.h"
#include "spec/rfc7252_opt.h"
#include "src/coap_pdu.c"
#include "src/coap_option.c"
#include "src/coap_encode.c"
#include "stubs/base.h"
#include "stubs/mem_loops.h"
#ifndef CAPM
#define CAPM 8
#endif
void harness(void) {
  static coap_pdu_t pdu_o, ref_o; static uint8_t blk[6 + CAPM]; coap_pdu_t *pdu = &pdu_o;
  IN_SCALAR(size_t, used); IN_SCALAR(uint8_t, etl); IN_SCALAR(uint8_t, code);
  IN_BYTES(msg, CAPM);
  ASSUME(used <= CAPM && etl <= 3);
  for (int i = 0; i < CAPM; i++) blk[6 + i] = msg.b[i];
  uint8_t *const b = blk + 6;
  pdu->token = b; pdu->used_size = used; pdu->alloc_size = CAPM; pdu->max_size = CAPM; pdu->max_hdr_size = 6; pdu->hdr_size = 4;
  pdu->e_token_length = etl; pdu->actual_token.length = etl; pdu->actual_token.s = b; pdu->code = (coap_pdu_code_t)code; pdu->data = NULL; pdu->max_opt = 0; pdu->session = NULL;
  int r = coap_pdu_parse_opt(pdu);
  /* ---- independent reference */
  int want; size_t want_data = 0; uint32_t num = 0; int lens_ok = 1, malformed = 0; size_t off = etl;
  if (code == 0) want = (used == 0 && etl == 0);
  else if (etl > used) want = 0;
  else {
    int open = 1;
    for (int k = 0; k <= CAPM; k++) if (open) {
      if (off >= used || b[off] == 0xFF) open = 0;
      else if (!WELLFORMED(b + off, used - off) || num + DELTA(b + off) > 65535u) { malformed = 1; open = 0; }
      else {
        num += DELTA(b + off); uint32_t len = LENV(b + off);
        ref_o.max_opt = (uint16_t)num; ref_o.code = (coap_pdu_code_t)code;
        if (COAP_PDU_IS_SIGNALING(&ref_o) ? !coap_pdu_parse_opt_csm(&ref_o, len) : !coap_pdu_parse_opt_base(&ref_o, len)) lens_ok = 0;
        off += HDR(b + off) + len;
      }
    }
    if (malformed) want = 0;
    else if (off < used && off + 1 == used) want = 0;                 /* payload marker without payload */
    else { want = lens_ok; want_data = off < used ? off + 1 : 0; }
  }
  CHECK((r != 0) == (want != 0), "coap_pdu_parse_opt accepts exactly the messages whose options are a sequence of RFC 7252 3.1 well-formed options with numbers <= 65535 and table-conforming lengths, ended by the end of the message or by a payload marker followed by at least one byte (an empty message has no token, options or payload)");
  CHECK(!r || code == 0 || (pdu->max_opt == num && (want_data ? pdu->data == b + want_data : pdu->data == NULL)), "on acceptance the payload starts right behind the marker (or is absent) and max_opt is the last option number");
  CHECK(!r || code != 0 || (pdu->used_size == 0 && pdu->data == NULL), "an accepted empty message has no content");
  MUSTFAIL(!(r && want_data && num > 255), "options_and_payload_reachable"); MUSTFAIL(!(!r && malformed), "malformed_reachable"); MUSTFAIL(!(!r && !malformed && code != 0 && etl <= used && !lens_ok), "bad_length_reachable"); MUSTFAIL(!(!r && off + 1 == used && off < used && !malformed), "marker_without_payload_reachable");
}
