/* units persist_track / persist_cnt_deleted / persist_restart (-DWHICH=1..3): C17 write-new-then-rename protocol of the
 * observe-counter file and the restart rounding lemma */
#include "coap3/coap_libcoap_build.h"
#include "spec/vin.h"
#ifndef VERIF_NATIVE
#include "stubs/stdio_protocol.h"
#endif
#include "src/coap_subscribe.c"
#include "src/coap_str.c"
#if WHICH >= 4
#define ALLOC_CAP 48             /* every block (file name, record blobs) is a constant-size object */
#include "stubs/alloc_bounded.h"
#else
#include "stubs/base.h"
#endif
#include "stubs/time_prng.h"
#if WHICH >= 4
#define MEMSET_EXACT 0          /* structs are cleared by havoc: only the call protocol is tracked */
#include "stubs/mem_havoc.h"    /* record names / packets have symbolic sizes: only the call protocol is tracked */
#else
#include "stubs/mem_loops.h"
#endif
void harness(void) {
#if WHICH == 3
  IN_SCALAR(uint32_t, k); IN_SCALAR(uint32_t, sent_after);
#ifndef FREQ
#define FREQ 5
#endif
  const uint32_t f = FREQ;
  ASSUME(k <= 1000000 && sent_after < f);
  uint32_t saved = k * f;                              /* the value handed to the save callback: a multiple of save_freq */
  uint32_t last_sent_before_crash = saved + sent_after; /* up to save_freq-1 further notifications before the next save */
  /* the formula of coap_op_obs_cnt_load_disk, followed by the +1 of the first coap_resource_notify_observers_lkd */
  uint32_t restored = ((saved + f) / f) * f - 1;
  uint32_t first_after_restart = (restored + 1) & 0xFFFFFF;
  CHECK(first_after_restart > last_sent_before_crash, "the first Observe value sent after a restart is greater than any value sent before the crash");
  MUSTFAIL(!(sent_after == f - 1), "worst_case_reachable");
#else
  coap_context_t *ctx = malloc(sizeof(*ctx)); ASSUME(ctx != NULL);
  uint8_t live_name[2]; live_name[0] = 'f'; live_name[1] = 0; uint8_t res_name[3]; res_name[0] = 'a'; res_name[1] = 'b'; res_name[2] = 0;
  coap_bin_const_t save_file = { 1, live_name }; coap_str_const_t rname = { 2, res_name };
  ctx->obs_cnt_save_file = &save_file; G_live_path = (const char *)live_name;
  G_live_open = G_tmp_open = G_tmp_created = G_tmp_write_failed = G_tmp_writes = G_tmp_flushed = G_tmp_flush_failed = G_renamed = G_tmp_removed = G_reads = G_live_ever = 0; G_read_limit = 2;
  IN_SCALAR(uint32_t, n);
#if WHICH == 1
  int r = coap_op_obs_cnt_track_observe(ctx, &rname, n, NULL);
#elif WHICH == 2
  int r = coap_op_obs_cnt_deleted(ctx, &rname);
#elif WHICH == 6 || WHICH == 7
  /* observe records: 'key proto listen addr_info len raw_packet len oscore' = up to 9 fread calls per record; two records + end */
  ctx->observe_save_file = &save_file; G_read_limit = 19; G_size_reads_bounded = 1;
  static coap_session_t session_o; coap_session_t *session = &session_o; session->context = ctx; session->proto = COAP_PROTO_UDP;
  static coap_subscription_t key_o; static coap_address_t laddr; static coap_addr_tuple_t ainfo;
  uint8_t pkt[4]; pkt[0] = 0x40; pkt[1] = 1; pkt[2] = 0; pkt[3] = 1; coap_bin_const_t packet = { 4, pkt };
  IN_SCALAR(_Bool, has_osc); coap_bin_const_t osc = { 2, pkt };
#if WHICH == 6
  int r = coap_op_observe_added(session, &key_o, COAP_PROTO_UDP, &laddr, &ainfo, &packet, has_osc ? &osc : NULL, NULL);
#else
  int r = coap_op_observe_deleted(session, &key_o, NULL);
#endif
#else
  ctx->dyn_resource_save_file = &save_file; G_read_limit = 11; G_size_reads_bounded = 1;   /* 5 fread calls per record: two records + end of file */
  uint8_t pkt[4]; pkt[0] = 0x40; pkt[1] = 1; pkt[2] = 0; pkt[3] = 1; coap_bin_const_t packet = { 4, pkt };
#if WHICH == 4
  coap_session_t *session = malloc(sizeof(*session)); ASSUME(session != NULL); session->context = ctx; session->proto = COAP_PROTO_UDP;
  int r = coap_op_dyn_resource_added(session, &rname, &packet, NULL);
#else
  int r = coap_op_resource_deleted(ctx, &rname, NULL);
#endif
#endif
  CHECK(r == 0 || r == 1, "the updater returns 0 or 1");
#if WHICH == 5
  CHECK(r == 1 ? (G_renamed == 1 || G_live_ever == 0) : G_renamed == 0, "the live file is replaced exactly when the updater reports success (or there was no live file to update), never on a failure path");
#else
  CHECK(r == G_renamed, "the live file is replaced exactly when the updater reports success (never on a failure path)");
#endif
  CHECK(G_live_open == 0 && G_tmp_open == 0, "no stream is left open");
  CHECK(r == 1 || !G_tmp_created || G_tmp_removed, "on failure the temporary file is removed");
  CHECK(r == 0 || G_tmp_writes >= ((WHICH == 1 || WHICH == 4) ? 1 : WHICH == 6 ? 7 : 0), "the new record is part of the new file");
  MUSTFAIL(!(r == 1 && G_reads >= 2), "two_records_copied_reachable"); MUSTFAIL(!(r == 0 && G_tmp_created), "failure_after_create_reachable");
#endif
}
