/* unit io_process_lock_b: the unlock / re-lock window around epoll_wait() in coap_io_process_with_fds_lkd (C13): the global lock is
 * released exactly while the thread waits in epoll_wait() and is held again on EVERY way out of the window (events, time-out,
 * EINTR, error), so that everything after it - event processing, cache expiry, async checks - runs with the lock held and the
 * function returns with the lock held.  Plain cbmc (no --dfcc), static objects, locking compiled in, -UNDEBUG.
 * Bounded: at most 2 rounds of the "more events than COAP_MAX_EPOLL_EVENTS" loop. */
#include "coap3/coap_libcoap_build.h"
#include "spec/vin.h"
#include "spec/lock_ghost.h"
#include "src/coap_io.c"
#include "src/coap_threadsafe.c"
#include "stubs/base.h"
#include "stubs/time_prng.h"
#include "stubs/mem_havoc.h"
#if !COAP_THREAD_SAFE || !defined(COAP_EPOLL_SUPPORT)
#error "this unit needs the locking code and the epoll path compiled in"
#endif
int G_errno, G_waits, G_locked_work, G_unlocked_work;
int *__errno_location(void) { return &G_errno; }
int nondet_nfds(void); int nondet_errno(void);
int epoll_wait(int epfd, struct epoll_event *events, int maxevents, int timeout) {
  (void)epfd; (void)events; (void)timeout;
  __CPROVER_assert(!G_held, "the global lock is released while the thread waits in epoll_wait()");
  int n = nondet_nfds(); __CPROVER_assume(n >= -1 && n <= maxevents);
  if (G_waits >= 2) __CPROVER_assume(n < maxevents);      /* bounded: the event array is full at most once */
  G_waits++;
  if (n < 0) { G_errno = nondet_errno(); }
  return n;
}
/* work that touches shared state: must run with the lock held */
static void vh_work(void) { if (G_held && global_lock.pid == G_me) G_locked_work++; else G_unlocked_work++; }
void coap_expire_cache_entries(coap_context_t *c) { (void)c; vh_work(); }
void coap_io_do_epoll_lkd(coap_context_t *c, struct epoll_event *ev, size_t n) { (void)c; (void)ev; (void)n; vh_work(); }
coap_tick_t coap_check_async(coap_context_t *c, coap_tick_t now) { (void)c; vh_work(); return now; }
void harness(void) {
  static coap_context_t ctx_o; coap_context_t *ctx = &ctx_o;
  IN_SCALAR(uint64_t, me); IN_SCALAR(uint32_t, timeout_ms); ASSUME(me != 0);
  G_me = (pthread_t)me; coap_started = 1; global_lock.pid = G_me; global_lock.in_callback = 0; global_lock.lock_count = 0; G_held = 1; G_mutex_ops = 0;
  G_waits = G_locked_work = G_unlocked_work = 0; G_errno = 0;
  int r = coap_io_process_with_fds_lkd(ctx, timeout_ms, 0, NULL, NULL, NULL);
  CHECK(G_held == 1 && global_lock.pid == G_me && global_lock.in_callback == 0 && global_lock.lock_count == 0, "coap_io_process_with_fds_lkd returns with the global lock held again, whatever epoll_wait() reported (events, time-out, EINTR, error)");
  CHECK(G_unlocked_work == 0, "nothing that touches shared state runs inside the unlock window");
  CHECK(G_waits >= 1, "the thread waits at least once");
  MUSTFAIL(!(G_errno == EINTR && G_waits == 1), "eintr_reachable"); MUSTFAIL(!(G_waits == 3), "second_round_reachable"); (void)r;
}
