/* Demonstration (native) of the defect behind fix "persistence updaters do not replace the save file with an incomplete copy":
 * coap_op_resource_deleted() copies the records of the dynamic-resource save file into a temporary file; when writing a copied
 * record failed it left the copy loop with `break`, flushed, and renamed the incomplete temporary file over the live file.
 * Here the live file holds resources "aa", "bb", "cc"; deleting "aa" with a write error while "cc" is copied must leave the old
 * file (return 0) - the defective code returns 1 and the file afterwards lacks "cc".
 * build: gcc -DNDEBUG -I<cfg> -I<cfg>/include -I/repo/include -I/repo persist_torn.c <libcoap static lib> <tls libs>
 * exit status: 1 on the defective code (torn file), 0 on the repaired code. */
#include "coap3/coap_libcoap_build.h"
#include <stdio.h>
static int fail_at = -1, nwrites;
static size_t demo_fwrite(const void *p, size_t sz, size_t n, FILE *fp) {
  if (fail_at >= 0 && nwrites++ == fail_at) return 0;      /* e.g. ENOSPC */
  return fwrite(p, sz, n, fp);
}
#define fwrite demo_fwrite
#include "src/coap_subscribe.c"
#undef fwrite
static int count_records(const char *path) {
  FILE *fp = fopen(path, "r"); int n = 0; coap_proto_t pr; coap_string_t *name; coap_binary_t *pkt;
  if (!fp) return -1;
  while (coap_op_dyn_resource_read(fp, &pr, &name, &pkt)) { n++; coap_delete_string(name); coap_delete_binary(pkt); }
  fclose(fp); return n;
}
int main(void) {
  const char *path = "/var/tmp/persist_torn_demo.save";
  remove(path);
  coap_startup();
  coap_context_t *ctx = coap_new_context(NULL);
  static coap_session_t session; session.context = ctx; session.proto = COAP_PROTO_UDP;
  ctx->dyn_resource_save_file = coap_new_bin_const((const uint8_t *)path, strlen(path) + 1);
  /* (coap_op_resource_deleted also updates the observe-counter file and dereferences its name unconditionally) */
  ctx->obs_cnt_save_file = coap_new_bin_const((const uint8_t *)"/var/tmp/persist_torn_demo.cnt", sizeof("/var/tmp/persist_torn_demo.cnt"));
  static const uint8_t pkt[4] = {0x40, 0x03, 0x00, 0x01}; coap_bin_const_t packet = {4, pkt};
  coap_str_const_t aa = {2, (const uint8_t *)"aa"}, bb = {2, (const uint8_t *)"bb"}, cc = {2, (const uint8_t *)"cc"};
  if (!coap_op_dyn_resource_added(&session, &aa, &packet, NULL) || !coap_op_dyn_resource_added(&session, &bb, &packet, NULL) ||
      !coap_op_dyn_resource_added(&session, &cc, &packet, NULL)) { printf("setup failed\n"); return 2; }
  printf("records before: %d\n", count_records(path));
  /* each record is 5 fwrite calls; copying "bb" = calls 0..4, "cc" = calls 5..9: fail the first write of "cc" */
  nwrites = 0; fail_at = 5;
  int r = coap_op_resource_deleted(ctx, &aa, NULL);
  fail_at = -1;
  int n = count_records(path);
  printf("coap_op_resource_deleted returned %d; records after: %d (expected: returned 0 and 3 records, or returned 1 and 2 records)\n", r, n);
  remove(path);
  return ((r == 0 && n == 3) || (r == 1 && n == 2)) ? 0 : 1;
}
