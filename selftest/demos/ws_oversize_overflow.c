/* Demonstration (native, ASan) of the defect behind fix "coap_ws_read forgets an oversized frame":
 * a peer announces a frame larger than the caller's buffer; coap_ws_read() answers with close 1009 but leaves
 * all_hdr_in = 1 and data_size = <announced size>; coap_ws_close() then drains the socket by calling
 * coap_ws_read(session, buf[100], 100), which asks the lower layer for data_size - data_ofs bytes into the
 * 100-byte stack buffer.
 * build: gcc -fsanitize=address -g -DNDEBUG -I<cfg> -I<cfg>/include -I/repo/include -I/repo ws_oversize_overflow.c
 * exit status: ASan abort (non-zero) on the defective code, 0 on the repaired code. */
#include "coap3/coap_libcoap_build.h"
#include <unistd.h>
#include "src/coap_ws.c"
static int calls;
static size_t max_req;
static ssize_t lower_read(coap_session_t *s, uint8_t *data, size_t len) {
  (void)s;
  calls++;
  if (calls == 1) { const uint8_t h[4] = {0x82, 0x7e, 0xff, 0xff}; memcpy(data, h, 4); return 4; }  /* FIN|BINARY, len=126 -> 65535 */
  if (len > max_req) max_req = len;
  static size_t avail = 600;                /* the peer sent 600 more bytes after the header */
  size_t n = len < avail ? len : avail;     /* a lower layer may deliver up to len bytes */
  if (n == 0) return -1;
  memset(data, 0x41, n); avail -= n;
  return (ssize_t)n;
}
static ssize_t lower_write(coap_session_t *s, const uint8_t *d, size_t l) { (void)s; (void)d; return (ssize_t)l; }
static void lower_close(coap_session_t *s) { (void)s; }
void *coap_malloc_type(coap_memory_tag_t t, size_t n) { (void)t; return malloc(n); }
void coap_free_type(coap_memory_tag_t t, void *p) { (void)t; free(p); }
coap_log_t coap_get_log_level(void) { return 0; }
void coap_log_impl(coap_log_t l, const char *f, ...) { (void)l; (void)f; }
int coap_handle_event_lkd(coap_context_t *c, coap_event_t e, coap_session_t *s) { (void)c; (void)e; (void)s; return 0; }
void coap_session_disconnected_lkd(coap_session_t *s, coap_nack_reason_t r) { (void)s; (void)r; }
int coap_netif_available(coap_session_t *s) { (void)s; return 1; }
const char *coap_session_str(const coap_session_t *s) { (void)s; return "demo"; }
int coap_prng_lkd(void *b, size_t l) { memset(b, 7, l); return 1; }
int coap_crypto_hash(cose_alg_t a, const coap_bin_const_t *d, coap_bin_const_t **h) { (void)a; (void)d; (void)h; return 0; }
void coap_delete_bin_const(coap_bin_const_t *b) { (void)b; }
coap_str_const_t *coap_new_str_const(const uint8_t *d, size_t n) { (void)d; (void)n; return NULL; }
void coap_delete_str_const(coap_str_const_t *s) { (void)s; }
coap_string_t *coap_new_string(size_t n) { (void)n; return NULL; }
void coap_delete_string(coap_string_t *s) { (void)s; }
const char *coap_print_ip_addr(const coap_address_t *a, char *b, size_t l) { (void)a; (void)l; return b; }
uint16_t coap_address_get_port(const coap_address_t *a) { (void)a; return 0; }
int coap_tcp_is_supported(void) { return 1; }
int coap_tls_is_supported(void) { return 1; }
int main(void) {
  static coap_session_t session; static coap_context_t ctx; static coap_ws_state_t ws;
  int fds[2]; if (pipe(fds)) return 2;
  if (write(fds[1], "x", 1) != 1) return 2;          /* select() reports the socket readable */
  session.context = &ctx; session.ws = &ws; session.sock.fd = fds[0]; session.state = COAP_SESSION_STATE_ESTABLISHED;
  ws.up = 1; ws.state = COAP_SESSION_TYPE_CLIENT;
  session.sock.lfunc[COAP_LAYER_WS].l_read = lower_read; session.sock.lfunc[COAP_LAYER_WS].l_write = lower_write;
  session.sock.lfunc[COAP_LAYER_WS].l_close = lower_close;
  uint8_t data[1152];
  ssize_t r = coap_ws_read(&session, data, sizeof(data));
  printf("coap_ws_read returned %zd; all_hdr_in=%d data_size=%zu; largest request to the lower layer from the 100-byte drain buffer: %zu\n",
         r, ws.all_hdr_in, ws.data_size, max_req);
  return max_req > 100 ? 1 : 0;
}
