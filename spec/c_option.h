/* spec/c_option.h -- contracts for functions of src/coap_option.c (bound with
 * --enforce-contract f/f_contract and --replace-call-with-contract f/f_contract). */
#ifndef VERIF_C_OPTION_H
#define VERIF_C_OPTION_H
#include "spec/rfc7252_opt.h"

/* C03/P1: accepts exactly the RFC 7252 3.1 well-formed options and reports what is on the wire. */
#define POST_OPT_PARSE_ACCEPT(ret, opt, length) (((ret) != 0) == (WELLFORMED(opt, length) ? 1 : 0))
#define POST_OPT_PARSE_VALUE(ret, opt, length, res) \
  ((ret) == 0 || ((ret) == HDR(opt) + LENV(opt) && (res)->delta == DELTA(opt) && \
                  (res)->length == LENV(opt) && (res)->value == (opt) + HDR(opt)))

size_t coap_opt_parse_contract(const coap_opt_t *opt, size_t length, coap_option_t *result)
__CPROVER_requires(__CPROVER_r_ok(opt, length))
__CPROVER_requires(__CPROVER_w_ok(result, sizeof(*result)))
__CPROVER_assigns(*result)
__CPROVER_ensures(POST_OPT_PARSE_ACCEPT(__CPROVER_return_value, opt, length))
__CPROVER_ensures(POST_OPT_PARSE_VALUE(__CPROVER_return_value, opt, length, result))
;

/* ---- encoder side (C01/P1).  MAXOPTLEN = largest encodable value length (0xFFFF + 269). */
#define MIN_(a, b) ((a) < (b) ? (a) : (b))
#define POST_SETHEADER_RET(ret, maxlen, d, l) ((ret) == ((maxlen) < HDRSZ(d, l) ? 0u : HDRSZ(d, l)))
#define POST_SETHEADER_BYTES(ret, opt, d, l) \
  ((ret) == 0 || (DN(opt) == NIB((uint32_t)(d)) && LN(opt) == NIB((uint32_t)(l)) && \
                  HDR(opt) == HDRSZ(d, l) && DELTA(opt) == (uint32_t)(d) && LENV(opt) == (uint32_t)(l)))

size_t coap_opt_setheader_contract(coap_opt_t *opt, size_t maxlen, uint16_t delta, size_t length)
__CPROVER_requires(length <= MAXOPTLEN)
__CPROVER_requires(__CPROVER_w_ok(opt, maxlen))
__CPROVER_assigns(maxlen < 5: __CPROVER_object_upto(opt, maxlen); maxlen >= 5: __CPROVER_object_upto(opt, 5))
__CPROVER_ensures(POST_SETHEADER_RET(__CPROVER_return_value, maxlen, delta, length))
__CPROVER_ensures(POST_SETHEADER_BYTES(__CPROVER_return_value, opt, delta, length))
;

size_t coap_opt_encode_size_contract(uint16_t delta, size_t length)
__CPROVER_requires(length <= MAXOPTLEN)
__CPROVER_assigns()
__CPROVER_ensures(__CPROVER_return_value == HDRSZ(delta, length) + length)
;

#define POST_ENCODE_RET(ret, maxlen, d, l) ((ret) == ((maxlen) < HDRSZ(d, l) + (l) ? 0u : HDRSZ(d, l) + (l)))
size_t coap_opt_encode_contract(coap_opt_t *opt, size_t maxlen, uint16_t delta, const uint8_t *val, size_t length)
__CPROVER_requires(length <= MAXOPTLEN)
__CPROVER_requires(__CPROVER_w_ok(opt, maxlen))
__CPROVER_requires(val == NULL || __CPROVER_r_ok(val, length))
__CPROVER_assigns(__CPROVER_object_upto(opt, maxlen))
__CPROVER_ensures(POST_ENCODE_RET(__CPROVER_return_value, maxlen, delta, length))
__CPROVER_ensures(POST_SETHEADER_BYTES(__CPROVER_return_value, opt, delta, length))
;

/* ---- accessors without a length argument: the caller owes "the header is inside the buffer". */
#define OPT_RESERVED(o) (DN(o) == 15 || LN(o) == 15)
uint32_t coap_opt_length_contract(const coap_opt_t *opt)
__CPROVER_requires(__CPROVER_r_ok(opt, 1) && __CPROVER_r_ok(opt, HDR(opt)))
__CPROVER_assigns()
__CPROVER_ensures(__CPROVER_return_value == (OPT_RESERVED(opt) ? 0u : LENV(opt)))
;
const uint8_t *coap_opt_value_contract(const coap_opt_t *opt)
__CPROVER_requires(__CPROVER_r_ok(opt, 1) && __CPROVER_r_ok(opt, HDR(opt)))
__CPROVER_assigns()
__CPROVER_ensures(__CPROVER_return_value == (OPT_RESERVED(opt) ? (const uint8_t *)0 : (opt) + HDR(opt)))
;
size_t coap_opt_size_contract(const coap_opt_t *opt)
__CPROVER_requires(__CPROVER_r_ok(opt, 1) && __CPROVER_r_ok(opt, HDR(opt)) && __CPROVER_r_ok(opt, HDR(opt) + LENV(opt)))
__CPROVER_assigns()
__CPROVER_ensures(__CPROVER_return_value == ((OPT_RESERVED(opt) || DELTA(opt) > 65535u) ? 0u : HDR(opt) + LENV(opt)))
;

/* ---- iterator step (no filter): relational contract; the grammar itself is stated once, on
 * coap_opt_parse.  The iterator owns [next_option, next_option+length). */
#define POST_NEXT_NULL(ret, oi) ((ret) != NULL || (oi)->bad)
#define POST_NEXT_STEP(ret, oi, old_next, old_len, old_num) \
  ((ret) == NULL || (!(oi)->bad && (ret) == (old_next) && WELLFORMED(ret, old_len) && \
     (oi)->next_option == (ret) + (HDR(ret) + LENV(ret)) && (oi)->length == (old_len) - (HDR(ret) + LENV(ret)) && \
     (oi)->number == (coap_option_num_t)((old_num) + DELTA(ret))))
#define POST_NEXT_END(ret, oi, old_next, old_len, old_bad) \
  ((ret) != NULL || (old_bad) || (old_len) == 0 || (old_next) == NULL || (old_next)[0] == 0xFF || !WELLFORMED(old_next, old_len))
coap_opt_t *coap_option_next_contract(coap_opt_iterator_t *oi)
__CPROVER_requires(__CPROVER_w_ok(oi, sizeof(*oi)) && !oi->filtered)
__CPROVER_requires(oi->bad || oi->length == 0 || oi->next_option == NULL || __CPROVER_r_ok(oi->next_option, oi->length))
__CPROVER_assigns(*oi)
__CPROVER_ensures(POST_NEXT_NULL(__CPROVER_return_value, oi))
__CPROVER_ensures(POST_NEXT_STEP(__CPROVER_return_value, oi, __CPROVER_old(oi->next_option), __CPROVER_old(oi->length), __CPROVER_old(oi->number)))
__CPROVER_ensures(POST_NEXT_END(__CPROVER_return_value, oi, __CPROVER_old(oi->next_option), __CPROVER_old(oi->length), __CPROVER_old(oi->bad)))
;
#endif
