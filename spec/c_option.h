/* spec/c_option.h -- contracts for functions of src/coap_option.c (bound with
 * --enforce-contract f/f_contract and --replace-call-with-contract f/f_contract). */
#ifndef VERIF_C_OPTION_H
#define VERIF_C_OPTION_H
#include "spec/rfc7252_opt.h"

/* C03/P1: accepts exactly the RFC 7252 3.1 well-formed options and reports what is on the wire. */
#define POST_OPT_PARSE_ACCEPT(ret, opt, length) (((ret) != 0) == (WELLFORMED(opt, length) ? 1 : 0))
#define POST_OPT_PARSE_VALUE(ret, opt, length, res) \
  ((ret) == 0 || ((ret) == HDR(opt) + LENV(opt) && (res)->delta == DELTA(opt) && \
                  (res)->length == LENV(opt) && (res)->value == (opt) + HDR(opt)))

size_t coap_opt_parse_contract(const coap_opt_t *opt, size_t length, coap_option_t *result)
__CPROVER_requires(__CPROVER_r_ok(opt, length))
__CPROVER_requires(__CPROVER_w_ok(result, sizeof(*result)))
__CPROVER_assigns(*result)
__CPROVER_ensures(POST_OPT_PARSE_ACCEPT(__CPROVER_return_value, opt, length))
__CPROVER_ensures(POST_OPT_PARSE_VALUE(__CPROVER_return_value, opt, length, result))
;
#endif
