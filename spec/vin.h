/* vin.h -- harness input / check macros shared by the three compilation modes of a unit:
 *   (default)        CBMC proof/bounded run: inputs are nondeterministic
 *   -DVERIF_WITNESS  CBMC witness run: byte buffers come from struct-wrapped nondet values of
 *                    constant capacity so that a counterexample trace carries every input byte
 *   -DVERIF_NATIVE   gcc + ASan/UBSan replay: inputs are read from a replay file produced from
 *                    the witness trace and the same spec predicates are evaluated on the real code
 * The guard LIBCOAP_VERIF is defined by every harness TU (never by the library build).
 */
#ifndef VERIF_VIN_H
#define VERIF_VIN_H
#include <stdint.h>
#include <stddef.h>
#include <stdlib.h>

#ifdef VERIF_NATIVE
#include <stdio.h>
#include <string.h>
extern int vin_fail_count;
unsigned long long vin_scalar(const char *name);
void vin_bytes(const char *name, uint8_t *dst, size_t cap);
int vin_next_choice(const char *site);
#define IN_SCALAR(T, name) T name = (T)vin_scalar(#name)
#define IN_BYTES(name, cap) struct { uint8_t b[cap]; } name; vin_bytes(#name, name.b, cap)
#define ASSUME(c) do { if (!(c)) { printf("REPLAY-SKIP: assumption does not hold: %s\n", #c); exit(3); } } while (0)
#define CHECK(c, msg) do { if (!(c)) { printf("REPLAY-FAIL: %s\n", msg); vin_fail_count++; } } while (0)
#define MUSTFAIL(c, msg) do { } while (0)
/* contract syntax disappears natively */
#define __CPROVER_requires(x)
#define __CPROVER_ensures(x)
#define __CPROVER_assigns(...)
#define __CPROVER_frees(...)
#define __CPROVER_same_object(a, b) 1
#define __CPROVER_assume(c) ASSUME(c)
#define __CPROVER_assert(c, msg) CHECK(c, msg)
#else
#define IN_SCALAR(T, name) T nondet_##name(void); T name = nondet_##name()
#define IN_BYTES(name, cap) struct name##_s { uint8_t b[cap]; }; struct name##_s nondet_##name(void); struct name##_s name = nondet_##name()
#define ASSUME(c) __CPROVER_assume(c)
#define CHECK(c, msg) __CPROVER_assert(c, msg)
#define MUSTFAIL(c, msg) __CPROVER_assert(c, "vacuity." msg)
#endif

/* A heap buffer of exactly `len` bytes (so a one-byte over-read leaves the object).
 * Proof mode: contents nondeterministic, len as symbolic as the harness left it.
 * Witness/native: len <= capw and the bytes come from a named input. */
#if defined(VERIF_WITNESS) || defined(VERIF_NATIVE)
#define IN_BUF(ptr, len, capw) \
  IN_BYTES(ptr##_in, capw); ASSUME((len) <= (capw)); \
  uint8_t *ptr = malloc(len); ASSUME(ptr != NULL); \
  for (size_t i_ = 0; i_ < (capw); i_++) if (i_ < (len)) ptr[i_] = ptr##_in.b[i_]
#else
#define IN_BUF(ptr, len, capw) uint8_t *ptr = malloc(len); ASSUME(ptr != NULL)
#endif

/* constant-capacity variant used by the bounded tier: object has exactly CAP bytes */
#if defined(VERIF_NATIVE)
#define IN_BUF_FIXED(ptr, cap) \
  IN_BYTES(ptr##_in, cap); uint8_t *ptr = malloc(cap); memcpy(ptr, ptr##_in.b, cap)
#else
#define IN_BUF_FIXED(ptr, cap) \
  IN_BYTES(ptr##_in, cap); uint8_t *ptr = malloc(cap); ASSUME(ptr != NULL); \
  for (size_t i_ = 0; i_ < (cap); i_++) ptr[i_] = ptr##_in.b[i_]
#endif

#endif
