/* spec/c_oscore.h -- contracts for src/oscore/oscore.c (C15 replay window, C14 option/nonce/AAD codecs) */
#ifndef VERIF_C_OSCORE_H
#define VERIF_C_OSCORE_H
/* ---- replay window as an abstract set (RFC 8613 7.4 / RFC 4303 style sliding window).
 * Bit k of `window` stands for sequence number last-k (bit 0 = last itself).
 *   SEEN(s): s was accepted and is still inside the 64-bit window
 *   REM(s) : "remembered": s must be refused = seen, or too old for the configured window size W (cap = min(W,63)) */
#define RW_CAP(W) ((W) < 63u ? (uint64_t)(W) : 63u)
#define RW_SEEN(last, win, s) ((s) <= (last) && (last) - (s) <= 63u && (((win) >> ((last) - (s))) & 1u))
#define RW_REM(last, win, W, s) ((s) <= (last) && (RW_SEEN(last, win, s) || (last) - (s) > RW_CAP(W)))
#define SEQ_MAX_ ((((uint64_t)1) << 40) - 1)
uint64_t G_u;       /* ghost: an arbitrary other sequence number */
uint64_t G_v;       /* ghost: the decoded incoming sequence number (set by the harness from the partial IV bytes) */
#define POST_VALIDATE(ret, c, v, u, o_last, o_win, W) ( \
  ((ret) == 0 || (ret) == 1) && \
  /* L1 accepted => remembered afterwards */      ((ret) != 1 || RW_REM((c)->last_seq, (c)->sliding_window, W, v)) && \
  /* L2 remembered stays remembered */            (!RW_REM(o_last, o_win, W, u) || RW_REM((c)->last_seq, (c)->sliding_window, W, u)) && \
  /* L3 remembered => refused */                  (!RW_REM(o_last, o_win, W, v) || (ret) == 0) && \
  /* L4 refused => state unchanged */             ((ret) != 0 || ((c)->last_seq == (o_last) && (c)->sliding_window == (o_win))) && \
  /* L5 rep invariant */                          ((c)->sliding_window & 1u) && (c)->initial_state == 0 && \
  /* L6 fresh and in range => accepted */         (RW_REM(o_last, o_win, W, v) || (v) >= SEQ_MAX_ || (ret) == 1) && \
  /* L7 out of range => refused */                ((v) < SEQ_MAX_ || (ret) == 0) && \
  /* L8 accepted => saved state is the old state */ ((ret) != 1 || ((c)->rollback_last_seq == (o_last) && (c)->rollback_sliding_window == (o_win))))
uint8_t oscore_validate_sender_seq_contract(oscore_recipient_ctx_t *ctx, cose_encrypt0_t *cose)
__CPROVER_requires(__CPROVER_w_ok(ctx, sizeof(*ctx)) && __CPROVER_r_ok(ctx->osc_ctx, sizeof(*ctx->osc_ctx)) && __CPROVER_r_ok(cose, sizeof(*cose)))
__CPROVER_requires(cose->partial_iv.length <= 8 && __CPROVER_r_ok(cose->partial_iv.s, cose->partial_iv.length))
__CPROVER_requires(ctx->initial_state == 0 && (ctx->sliding_window & 1u) && ctx->last_seq < SEQ_MAX_)
__CPROVER_assigns(ctx->last_seq, ctx->sliding_window, ctx->rollback_last_seq, ctx->rollback_sliding_window, ctx->initial_state)
__CPROVER_ensures(POST_VALIDATE(__CPROVER_return_value, ctx, G_v, G_u, __CPROVER_old(ctx->last_seq), __CPROVER_old(ctx->sliding_window), ctx->osc_ctx->replay_window_size))
;
uint8_t oscore_increment_sender_seq_contract(oscore_ctx_t *ctx)
__CPROVER_requires(__CPROVER_r_ok(ctx, sizeof(*ctx)) && __CPROVER_w_ok(ctx->sender_context, sizeof(*ctx->sender_context)))
/* every counter value, also beyond exhaustion (the counter must keep refusing, never wrap) */
__CPROVER_requires(ctx->sender_context->seq < UINT64_MAX)
__CPROVER_assigns(ctx->sender_context->seq)
__CPROVER_ensures(ctx->sender_context->seq == __CPROVER_old(ctx->sender_context->seq) + 1)
__CPROVER_ensures(__CPROVER_return_value == (ctx->sender_context->seq < SEQ_MAX_ ? 1 : 0))
;
#endif
