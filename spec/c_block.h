/* spec/c_block.h -- contracts for the block-wise bookkeeping leaves of src/coap_block.c (C09) */
#ifndef VERIF_C_BLOCK_H
#define VERIF_C_BLOCK_H
/* received-block ranges as a data structure against an abstract set view.
 * WF: at most COAP_RBLOCK_CNT-1 (=3) ranges, each non-empty, strictly increasing and non-adjacent. */
#define RB_WF(rb) ((rb)->used <= 3 && \
  ((rb)->used < 1 || (rb)->range[0].begin <= (rb)->range[0].end) && \
  ((rb)->used < 2 || ((rb)->range[1].begin <= (rb)->range[1].end && (uint64_t)(rb)->range[0].end + 1 < (rb)->range[1].begin)) && \
  ((rb)->used < 3 || ((rb)->range[2].begin <= (rb)->range[2].end && (uint64_t)(rb)->range[1].end + 1 < (rb)->range[2].begin)))
#define RB_IN1(rb, i, b) ((rb)->used > (i) && (rb)->range[i].begin <= (b) && (b) <= (rb)->range[i].end)
#define RB_IN(rb, b) (RB_IN1(rb, 0, b) || RB_IN1(rb, 1, b) || RB_IN1(rb, 2, b) || RB_IN1(rb, 3, b))
/* first block number that is missing */
#define RB_FIRST_MISSING(rb) (((rb)->used == 0 || (rb)->range[0].begin > 0) ? 0u : (rb)->range[0].end + 1u)
#endif
