/* spec/rfc7252_opt.h -- RFC 7252 section 3.1 option format as plain C expressions.
 * Written from the RFC text (Figure 8 and the field descriptions), not from coap_option.c.
 *   o : pointer to the first byte of an encoded option, n : bytes available from o.
 * All arithmetic is in uint32_t (max value 65535+269+... fits easily). */
#ifndef VERIF_SPEC_RFC7252_OPT_H
#define VERIF_SPEC_RFC7252_OPT_H
#define DN(o) ((uint32_t)((o)[0] >> 4))
#define LN(o) ((uint32_t)((o)[0] & 15))
#define DX(o) (DN(o) == 13 ? 1u : DN(o) == 14 ? 2u : 0u)       /* extended delta bytes  */
#define LX(o) (LN(o) == 13 ? 1u : LN(o) == 14 ? 2u : 0u)       /* extended length bytes */
#define HDR(o) (1u + DX(o) + LX(o))
/* (nibble 15 is reserved: DELTA/LENV are defined as 0 there so that they read only header bytes) */
#define DELTA(o) (DN(o) < 13 ? DN(o) : DN(o) == 13 ? (uint32_t)(o)[1] + 13u \
                  : DN(o) == 14 ? (((uint32_t)(o)[1] << 8) | (uint32_t)(o)[2]) + 269u : 0u)
#define LENV(o) (LN(o) < 13 ? LN(o) : LN(o) == 13 ? (uint32_t)(o)[1 + DX(o)] + 13u \
                 : LN(o) == 14 ? (((uint32_t)(o)[1 + DX(o)] << 8) | (uint32_t)(o)[2 + DX(o)]) + 269u : 0u)
/* An option is well-formed in n bytes iff no nibble is the reserved 15, all extension bytes and the
 * whole value are present, and the delta alone does not exceed the largest option number. */
#define WELLFORMED(o, n) ((n) >= 1 && DN(o) != 15 && LN(o) != 15 && (n) >= HDR(o) && \
                          DELTA(o) <= 65535u && (n) >= HDR(o) + LENV(o))
/* encoder side: header size for a (delta, length) pair */
#define EXTSZ(v) ((v) < 13u ? 0u : (v) < 269u ? 1u : 2u)
#define HDRSZ(d, l) (1u + EXTSZ((uint32_t)(d)) + EXTSZ((uint32_t)(l)))
#define MAXOPTLEN 65804u   /* largest encodable value length: 0xFFFF + 269 */
#define NIB(v) ((v) < 13u ? (v) : (v) < 269u ? 13u : 14u)
#endif
