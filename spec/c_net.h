/* spec/c_net.h -- ghost-state contracts for src/coap_net.c (C08, C19, C06, C07) */
#ifndef VERIF_C_NET_H
#define VERIF_C_NET_H
/* ghost counters threaded through the replaced callees */
int G_sent;            /* datagrams/stream messages handed to the transport (coap_session_send_pdu) */
int G_sent_state;      /* session state at the time of the last hand-over */
int G_delayed;         /* calls of coap_session_delay_pdu */
coap_pdu_t *G_delayed_pdu; coap_queue_t *G_delayed_node;
int G_plain;           /* datagrams given to the clear-text CoAP path (coap_handle_dgram) */
int G_hello, G_dtlsrx; /* datagrams given to coap_dtls_hello / coap_dtls_receive */

ssize_t coap_session_send_pdu_contract(coap_session_t *session, coap_pdu_t *pdu)
__CPROVER_requires(__CPROVER_r_ok(session, sizeof(*session)) && __CPROVER_r_ok(pdu, sizeof(*pdu)))
__CPROVER_assigns(G_sent, G_sent_state)
__CPROVER_ensures(G_sent == __CPROVER_old(G_sent) + 1 && G_sent_state == (int)session->state)
;
int coap_handle_dgram_contract(coap_context_t *ctx, coap_session_t *session, uint8_t *msg, size_t msg_len)
__CPROVER_assigns(G_plain)
__CPROVER_ensures(G_plain == __CPROVER_old(G_plain) + 1)
;
#endif
