/* spec/c_pdu.h -- contracts for functions of src/coap_pdu.c */
#ifndef VERIF_C_PDU_H
#define VERIF_C_PDU_H
#include "spec/pdu_wf.h"
#include "spec/rfc7252_opt.h"

/* ---- coap_update_token (C04): replaces the token, moves options+payload, keeps everything else.
 * old_doff = old (data - token) or 0 when there was no payload. */
#define POST_UPDTOK_SHAPE(ret, p, len, old_used, old_etkl, old_doff) \
  ((ret) != 1 || ( \
     (p)->actual_token.length == (len) && \
     (p)->e_token_length == (len) + BIAS(len) && \
     (p)->actual_token.s == (p)->token + BIAS(len) && \
     (p)->used_size == (old_used) - (old_etkl) + ((len) + BIAS(len)) && \
     ((old_doff) == 0 ? (p)->data == NULL \
                      : ((p)->data != NULL && (size_t)((p)->data - (p)->token) == (old_doff) - (old_etkl) + ((len) + BIAS(len)))) && \
     (p)->used_size <= (p)->alloc_size && ((p)->max_size == 0 || (p)->alloc_size <= (p)->max_size)))
#define POST_UPDTOK_EXT(ret, p, len) \
  ((ret) != 1 || (len) < 13u || ((len) < 269u ? (p)->token[0] == (len) - 13u \
                  : ((p)->token[0] == (((len) - 269u) >> 8) && (p)->token[1] == (((len) - 269u) & 0xff))))
#define POST_UPDTOK_REFUSED(ret, p, old_used, old_etkl, old_doff, old_alloc) \
  ((ret) != 0 || ((p)->used_size == (old_used) && (p)->e_token_length == (old_etkl) && (p)->alloc_size == (old_alloc) && \
                  ((old_doff) == 0 ? (p)->data == NULL : (size_t)((p)->data - (p)->token) == (old_doff))))

#ifndef VERIF_NATIVE
/* frees-clause target: the heap block of a PDU starts max_hdr_size bytes before token */
void pdu_block_freeable(coap_pdu_t *pdu) { __CPROVER_freeable(pdu->token - pdu->max_hdr_size); }
#endif
size_t G_old_doff; /* ghost: (data - token) at entry, 0 if no payload (set by the harness; the old block may be freed by realloc) */
int coap_update_token_contract(coap_pdu_t *pdu, size_t len, const uint8_t *data)
__CPROVER_requires(pdu != NULL && PDU_WF_MEM(pdu) && PDU_WF_SCALAR(pdu) && pdu->used_size > 0)
__CPROVER_requires(pdu->hdr_size == 0 || pdu->session == NULL)
__CPROVER_requires(G_old_doff == (pdu->data == NULL ? 0 : (size_t)(pdu->data - pdu->token)))
__CPROVER_requires(len > TOKMAX || __CPROVER_r_ok(data, len))
__CPROVER_assigns(*pdu, __CPROVER_object_whole(pdu->token))
__CPROVER_frees(pdu_block_freeable(pdu))
__CPROVER_ensures(__CPROVER_return_value == 0 || __CPROVER_return_value == 1)
__CPROVER_ensures(__CPROVER_return_value == (len <= TOKMAX) || __CPROVER_return_value == 0)
__CPROVER_ensures(POST_UPDTOK_SHAPE(__CPROVER_return_value, pdu, len, __CPROVER_old(pdu->used_size), __CPROVER_old(pdu->e_token_length), \
                                    G_old_doff))
__CPROVER_ensures(POST_UPDTOK_EXT(__CPROVER_return_value, pdu, len))
__CPROVER_ensures(POST_UPDTOK_REFUSED(__CPROVER_return_value, pdu, __CPROVER_old(pdu->used_size), __CPROVER_old(pdu->e_token_length), \
                                    G_old_doff, __CPROVER_old(pdu->alloc_size)))
;

/* ---- header framing (C01 P2, C03 P5, C05) */
#include "spec/tcp_len.h"
size_t coap_pdu_parse_header_size_contract(coap_proto_t proto, const uint8_t *data)
__CPROVER_requires(__CPROVER_r_ok(data, 1))
__CPROVER_assigns()
__CPROVER_ensures(__CPROVER_return_value == PROTO_HDRSZ(proto, data))
;
/* total size of token (incl. extension bytes) + options + payload announced by a stream header.
 * The caller passes exactly the fixed header plus the extended-token-length bytes. */
#define POST_PARSE_SIZE(ret, proto, d) \
  ((ret) == (IS_TCPTLS(proto) ? TCP_LENGTH(d) + E_TOKLEN(TKL_NIB(d), (d) + TCP_HDRSZ(d)) : 0u))
size_t coap_pdu_parse_size_contract(coap_proto_t proto, const uint8_t *data, size_t length)
__CPROVER_requires(IS_TCPTLS(proto) || IS_WS(proto))
__CPROVER_requires(length >= 1 && __CPROVER_r_ok(data, length) && length >= PROTO_HDRSZ(proto, data) + TKL_EXT(TKL_NIB(data)))
__CPROVER_assigns()
__CPROVER_ensures(POST_PARSE_SIZE(__CPROVER_return_value, proto, data))
;

/* coap_pdu_encode_header: h = returned header size, hdr = token - h */
#define TKN(p) TKLNIB((p)->actual_token.length)
#define LEN_OPTS(p) ((p)->used_size - (p)->e_token_length)
#define POST_ENC_HDR_UDP(ret, p, old_type) \
  ((ret) == 4 && (p)->hdr_size == 4 && (p)->token[-4] == ((1u << 6) | ((uint32_t)(old_type) << 4) | TKN(p)) && \
   (p)->token[-3] == (p)->code && (p)->token[-2] == (((p)->mid >> 8) & 0xff) && (p)->token[-1] == ((p)->mid & 0xff))
#define POST_ENC_HDR_STREAM(ret, p, L) \
  ((L) < 13u ? ((ret) == 2 && (p)->token[-2] == (((L) << 4) | TKN(p)) && (p)->token[-1] == (p)->code) : \
   (L) < 269u ? ((ret) == 3 && (p)->token[-3] == ((13u << 4) | TKN(p)) && (p)->token[-2] == (L) - 13u && (p)->token[-1] == (p)->code) : \
   (L) < 65805u ? ((ret) == 4 && (p)->token[-4] == ((14u << 4) | TKN(p)) && (p)->token[-3] == ((((L) - 269u) >> 8) & 0xff) && \
                   (p)->token[-2] == (((L) - 269u) & 0xff) && (p)->token[-1] == (p)->code) : \
   ((ret) == 6 && (p)->token[-6] == ((15u << 4) | TKN(p)) && (p)->token[-5] == ((((L) - 65805u) >> 24) & 0xff) && \
    (p)->token[-4] == ((((L) - 65805u) >> 16) & 0xff) && (p)->token[-3] == ((((L) - 65805u) >> 8) & 0xff) && \
    (p)->token[-2] == (((L) - 65805u) & 0xff) && (p)->token[-1] == (p)->code))
#define POST_ENC_HDR(ret, p, proto, old_type, old_hdr) \
  (IS_DGRAM(proto) ? POST_ENC_HDR_UDP(ret, p, old_type) : \
   IS_TCPTLS(proto) ? (POST_ENC_HDR_STREAM(ret, p, LEN_OPTS(p)) && (p)->hdr_size == (ret) && (p)->type == COAP_MESSAGE_CON) : \
   IS_WS(proto) ? (POST_ENC_HDR_STREAM(ret, p, 0u) && (p)->hdr_size == (ret) && (p)->type == COAP_MESSAGE_CON) : \
   ((ret) == (old_hdr) && (p)->hdr_size == (old_hdr)) /* no such transport: nothing encoded, header size unchanged */)
size_t coap_pdu_encode_header_contract(coap_pdu_t *pdu, coap_proto_t proto)
__CPROVER_requires(PDU_WF_MEM(pdu) && PDU_WF_SCALAR(pdu) && pdu->max_hdr_size == 6 && pdu->type <= 3)
__CPROVER_assigns(pdu->hdr_size, pdu->type, __CPROVER_object_upto(pdu->token - pdu->max_hdr_size, pdu->max_hdr_size))
__CPROVER_ensures(POST_ENC_HDR(__CPROVER_return_value, pdu, proto, __CPROVER_old(pdu->type), __CPROVER_old(pdu->hdr_size)))
;

/* coap_pdu_parse_header (C03 P3): hdr = token - hdr_size holds the received fixed header */
#define HDRP(p) ((p)->token - (p)->hdr_size)
#define PH_TOK_OK(p) (TKL_NIB(HDRP(p)) != 15u && E_TOKLEN(TKL_NIB(HDRP(p)), (p)->token) <= (p)->alloc_size)
#define POST_PARSE_HDR_ACCEPT(ret, p, proto) \
  (((ret) != 0) == ((IS_DGRAM(proto) ? (HDRP(p)[0] >> 6) == 1u : (IS_TCPTLS(proto) || IS_WS(proto))) && PH_TOK_OK(p)))
#define POST_PARSE_HDR_FIELDS(ret, p, proto) \
  ((ret) == 0 || ( \
    (IS_DGRAM(proto) ? ((p)->type == ((HDRP(p)[0] >> 4) & 3u) && (p)->code == HDRP(p)[1] && (p)->mid == ((HDRP(p)[2] << 8) | HDRP(p)[3])) \
                     : ((p)->type == COAP_MESSAGE_CON && (p)->code == HDRP(p)[(p)->hdr_size - 1] && (p)->mid == 0)) && \
    (p)->e_token_length == E_TOKLEN(TKL_NIB(HDRP(p)), (p)->token) && \
    (p)->actual_token.length == TOKLEN(TKL_NIB(HDRP(p)), (p)->token) && \
    (p)->actual_token.s == (p)->token + TKL_EXT(TKL_NIB(HDRP(p)))))
#define POST_PARSE_HDR_REJECT(ret, p) ((ret) != 0 || (IS_DGRAM(proto) && (HDRP(p)[0] >> 6) != 1u) || !(IS_DGRAM(proto) || IS_TCPTLS(proto) || IS_WS(proto)) || ((p)->e_token_length == 0 && (p)->actual_token.length == 0))
int coap_pdu_parse_header_contract(coap_pdu_t *pdu, coap_proto_t proto)
__CPROVER_requires(PDU_WF_MEM(pdu) && pdu->max_hdr_size >= 4 && pdu->max_hdr_size <= 6 && pdu->hdr_size <= pdu->max_hdr_size)
__CPROVER_requires(pdu->hdr_size >= 2 && (pdu->hdr_size == PROTO_HDRSZ(proto, HDRP(pdu)) || !(IS_DGRAM(proto) || IS_TCPTLS(proto) || IS_WS(proto))))
__CPROVER_requires(pdu->used_size <= pdu->alloc_size)
/* the extended-token-length bytes lie inside the received message */
__CPROVER_requires(TKL_EXT(TKL_NIB(HDRP(pdu))) <= pdu->used_size)
__CPROVER_assigns(pdu->type, pdu->code, pdu->mid, pdu->e_token_length, pdu->actual_token)
__CPROVER_ensures(POST_PARSE_HDR_ACCEPT(__CPROVER_return_value, pdu, proto))
__CPROVER_ensures(POST_PARSE_HDR_FIELDS(__CPROVER_return_value, pdu, proto))
;

/* ---- next_option_safe (C03 P2): one parser step; rejects iff the option is malformed or the running
 * option number would exceed 65535.  old_* = values at entry. */
#define POST_NOS_ACCEPT(ret, old_opt, old_len, old_max) \
  (((ret) != 0) == (WELLFORMED(old_opt, old_len) && (uint32_t)(old_max) + DELTA(old_opt) <= 65535u))
#define POST_NOS_STEP(ret, optp, lengthp, maxp, old_opt, old_len, old_max) \
  ((ret) == 0 ? (*(optp) == (old_opt) && *(lengthp) == (old_len) && *(maxp) == (old_max)) \
              : ((ret) == HDR(old_opt) + LENV(old_opt) && *(optp) == (old_opt) + (ret) && *(lengthp) == (old_len) - (ret) && \
                 *(maxp) == (old_max) + DELTA(old_opt)))
static size_t next_option_safe_contract(coap_opt_t **optp, size_t *length, uint16_t *max_opt)
__CPROVER_requires(__CPROVER_w_ok(optp, sizeof(*optp)) && __CPROVER_w_ok(length, sizeof(*length)) && __CPROVER_w_ok(max_opt, sizeof(*max_opt)))
__CPROVER_requires(__CPROVER_r_ok(*optp, *length))
__CPROVER_assigns(*optp, *length, *max_opt)
__CPROVER_ensures(POST_NOS_ACCEPT(__CPROVER_return_value, __CPROVER_old(*optp), __CPROVER_old(*length), __CPROVER_old(*max_opt)))
__CPROVER_ensures(POST_NOS_STEP(__CPROVER_return_value, optp, length, max_opt, __CPROVER_old(*optp), __CPROVER_old(*length), __CPROVER_old(*max_opt)))
;

/* ---- buffer growth (C04/C18).  G_old_doff as for coap_update_token. */
#define POST_RESIZE_OK(ret, p, new_size, old_alloc, old_doff) \
  ((ret) != 1 || ((p)->alloc_size == (new_size) && \
     ((old_doff) == 0 || (new_size) <= (old_alloc) ? 1 : ((p)->data != NULL && (size_t)((p)->data - (p)->token) == (old_doff))) && \
     ((new_size) <= (old_alloc) || (p)->actual_token.s == (p)->token + BIAS((p)->actual_token.length))))
#define POST_RESIZE_REFUSED(ret, p, new_size, old_alloc, old_token, old_data) \
  ((ret) != 0 || ((new_size) > (old_alloc) && (p)->alloc_size == (old_alloc) && (p)->token == (old_token) && (p)->data == (old_data)))
int coap_pdu_resize_contract(coap_pdu_t *pdu, size_t new_size)
__CPROVER_requires(PDU_WF_MEM(pdu) && PDU_WF_SCALAR(pdu) && new_size <= 2 * MAXRX)
__CPROVER_requires(G_old_doff == (pdu->data == NULL ? 0 : (size_t)(pdu->data - pdu->token)))
__CPROVER_assigns(pdu->alloc_size, pdu->token, pdu->data, pdu->actual_token.s)
__CPROVER_frees(pdu_block_freeable(pdu))
__CPROVER_ensures(__CPROVER_return_value == 0 || __CPROVER_return_value == 1)
__CPROVER_ensures(__CPROVER_return_value == 1 || (pdu->max_size && new_size > pdu->max_size) || new_size > __CPROVER_old(pdu->alloc_size))
__CPROVER_ensures(POST_RESIZE_OK(__CPROVER_return_value, pdu, new_size, __CPROVER_old(pdu->alloc_size), G_old_doff))
__CPROVER_ensures(POST_RESIZE_REFUSED(__CPROVER_return_value, pdu, new_size, __CPROVER_old(pdu->alloc_size), __CPROVER_old(pdu->token), __CPROVER_old(pdu->data)))
/* the (possibly new) block really has max_hdr_size + alloc_size bytes */
__CPROVER_ensures(__CPROVER_return_value != 1 || new_size <= __CPROVER_old(pdu->alloc_size) || __CPROVER_w_ok(pdu->token - pdu->max_hdr_size, (size_t)pdu->max_hdr_size + new_size))
;
#define POST_CHKRESIZE(ret, p, size, old_alloc) \
  ((ret) == 1 ? ((p)->alloc_size >= (size) && ((p)->max_size == 0 || (p)->alloc_size <= (p)->max_size) && ((size) > (old_alloc) || (p)->alloc_size == (old_alloc))) \
              : ((p)->alloc_size == (old_alloc) && (size) > (old_alloc)))
int coap_pdu_check_resize_contract(coap_pdu_t *pdu, size_t size)
__CPROVER_requires(PDU_WF_MEM(pdu) && PDU_WF_SCALAR(pdu) && size <= 2 * MAXRX)
__CPROVER_requires(G_old_doff == (pdu->data == NULL ? 0 : (size_t)(pdu->data - pdu->token)))
__CPROVER_assigns(pdu->alloc_size, pdu->token, pdu->data, pdu->actual_token.s)
__CPROVER_frees(pdu_block_freeable(pdu))
__CPROVER_ensures(__CPROVER_return_value == 0 || __CPROVER_return_value == 1)
__CPROVER_ensures(POST_CHKRESIZE(__CPROVER_return_value, pdu, size, __CPROVER_old(pdu->alloc_size)))
__CPROVER_ensures(__CPROVER_return_value != 1 || (G_old_doff == 0 ? pdu->data == NULL : (pdu->data != NULL && (size_t)(pdu->data - pdu->token) == G_old_doff)))
/* refused only because the maximum PDU size forbids it or the allocator failed (stub may fail) */
;

/* ---- coap_add_token (C01 P3) */
#define POST_ADDTOK_OK(ret, p, len) \
  ((ret) != 1 || ((p)->actual_token.length == (len) && (p)->e_token_length == (len) + BIAS(len) && \
     (p)->actual_token.s == (p)->token + BIAS(len) && (p)->used_size == (len) + BIAS(len) && (p)->max_opt == 0 && (p)->data == NULL && \
     (p)->used_size <= (p)->alloc_size && ((p)->max_size == 0 || (p)->alloc_size <= (p)->max_size)))
int coap_add_token_contract(coap_pdu_t *pdu, size_t len, const uint8_t *data)
__CPROVER_requires(pdu != NULL && PDU_WF_MEM(pdu) && PDU_WF_SCALAR(pdu) && pdu->data == NULL)
__CPROVER_requires(len > TOKMAX || __CPROVER_r_ok(data, len))
__CPROVER_assigns(*pdu, __CPROVER_object_whole(pdu->token))
__CPROVER_frees(pdu_block_freeable(pdu))
__CPROVER_ensures(__CPROVER_return_value == 0 || __CPROVER_return_value == 1)
__CPROVER_ensures(__CPROVER_return_value == 0 || (__CPROVER_old(pdu->used_size) == 0 && len <= TOKMAX))
__CPROVER_ensures(POST_ADDTOK_OK(__CPROVER_return_value, pdu, len))
__CPROVER_ensures(POST_UPDTOK_EXT(__CPROVER_return_value, pdu, len))
__CPROVER_ensures(__CPROVER_return_value == 1 || (pdu->used_size == __CPROVER_old(pdu->used_size) && pdu->e_token_length == __CPROVER_old(pdu->e_token_length)))
;

/* ---- coap_add_data_after (C01 P3): payload marker + reserved payload space at the end */
#define POST_ADDDATA(ret, p, len, old_used, old_data) \
  ((ret) != NULL ? ((old_data) == NULL && (len) > 0 && (ret) == (p)->token + (old_used) + 1 && (p)->data == (ret) && \
                    (p)->token[old_used] == 0xFF && (p)->used_size == (old_used) + 1 + (len) && (p)->used_size <= (p)->alloc_size) \
                 : ((p)->used_size == (old_used) && ((old_data) != NULL || (p)->data == NULL)))
uint8_t *coap_add_data_after_contract(coap_pdu_t *pdu, size_t len)
__CPROVER_requires(PDU_WF_MEM(pdu) && PDU_WF_SCALAR(pdu) && len <= MAXRX)
__CPROVER_assigns(*pdu, __CPROVER_object_whole(pdu->token))
__CPROVER_frees(pdu_block_freeable(pdu))
__CPROVER_ensures(POST_ADDDATA(__CPROVER_return_value, pdu, len, __CPROVER_old(pdu->used_size), __CPROVER_old(pdu->data)))
;

/* ---- frame contracts of the option editors (bounded-tier units state the model equality in the harness) */
int coap_remove_option_frame_contract(coap_pdu_t *pdu, coap_option_num_t number)
__CPROVER_requires(PDU_WF_MEM(pdu) && PDU_WF_SCALAR(pdu))
__CPROVER_assigns(*pdu, __CPROVER_object_whole(pdu->token))
__CPROVER_frees(pdu_block_freeable(pdu))
__CPROVER_ensures(__CPROVER_return_value == 0 || __CPROVER_return_value == 1)
;
size_t coap_insert_option_frame_contract(coap_pdu_t *pdu, coap_option_num_t number, size_t len, const uint8_t *data)
__CPROVER_requires(PDU_WF_MEM(pdu) && PDU_WF_SCALAR(pdu) && len <= MAXOPTLEN && (data == NULL || __CPROVER_r_ok(data, len)))
__CPROVER_assigns(*pdu, __CPROVER_object_whole(pdu->token))
__CPROVER_frees(pdu_block_freeable(pdu))
__CPROVER_ensures(__CPROVER_return_value <= MAXOPTLEN + 5)
;
size_t coap_update_option_frame_contract(coap_pdu_t *pdu, coap_option_num_t number, size_t len, const uint8_t *data)
__CPROVER_requires(PDU_WF_MEM(pdu) && PDU_WF_SCALAR(pdu) && len <= MAXOPTLEN && (data == NULL || __CPROVER_r_ok(data, len)))
__CPROVER_assigns(*pdu, __CPROVER_object_whole(pdu->token))
__CPROVER_frees(pdu_block_freeable(pdu))
__CPROVER_ensures(__CPROVER_return_value <= MAXOPTLEN + 5)
;
size_t coap_add_option_internal_frame_contract(coap_pdu_t *pdu, coap_option_num_t number, size_t len, const uint8_t *data)
__CPROVER_requires(PDU_WF_MEM(pdu) && PDU_WF_SCALAR(pdu) && len <= MAXOPTLEN && (data == NULL || __CPROVER_r_ok(data, len)))
__CPROVER_assigns(*pdu, __CPROVER_object_whole(pdu->token))
__CPROVER_frees(pdu_block_freeable(pdu))
__CPROVER_ensures(__CPROVER_return_value <= MAXOPTLEN + 5)
;
#endif
