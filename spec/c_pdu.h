/* spec/c_pdu.h -- contracts for functions of src/coap_pdu.c */
#ifndef VERIF_C_PDU_H
#define VERIF_C_PDU_H
#include "spec/pdu_wf.h"
#include "spec/rfc7252_opt.h"

/* ---- coap_update_token (C04): replaces the token, moves options+payload, keeps everything else.
 * old_doff = old (data - token) or 0 when there was no payload. */
#define POST_UPDTOK_SHAPE(ret, p, len, old_used, old_etkl, old_doff) \
  ((ret) != 1 || ( \
     (p)->actual_token.length == (len) && \
     (p)->e_token_length == (len) + BIAS(len) && \
     (p)->actual_token.s == (p)->token + BIAS(len) && \
     (p)->used_size == (old_used) - (old_etkl) + ((len) + BIAS(len)) && \
     ((old_doff) == 0 ? (p)->data == NULL \
                      : ((p)->data != NULL && (size_t)((p)->data - (p)->token) == (old_doff) - (old_etkl) + ((len) + BIAS(len)))) && \
     (p)->used_size <= (p)->alloc_size && ((p)->max_size == 0 || (p)->alloc_size <= (p)->max_size)))
#define POST_UPDTOK_EXT(ret, p, len) \
  ((ret) != 1 || (len) < 13u || ((len) < 269u ? (p)->token[0] == (len) - 13u \
                  : ((p)->token[0] == (((len) - 269u) >> 8) && (p)->token[1] == (((len) - 269u) & 0xff))))
#define POST_UPDTOK_REFUSED(ret, p, old_used, old_etkl, old_doff, old_alloc) \
  ((ret) != 0 || ((p)->used_size == (old_used) && (p)->e_token_length == (old_etkl) && (p)->alloc_size == (old_alloc) && \
                  ((old_doff) == 0 ? (p)->data == NULL : (size_t)((p)->data - (p)->token) == (old_doff))))

#ifndef VERIF_NATIVE
/* frees-clause target: the heap block of a PDU starts max_hdr_size bytes before token */
void pdu_block_freeable(coap_pdu_t *pdu) { __CPROVER_freeable(pdu->token - pdu->max_hdr_size); }
#endif
size_t G_old_doff; /* ghost: (data - token) at entry, 0 if no payload (set by the harness; the old block may be freed by realloc) */
int coap_update_token_contract(coap_pdu_t *pdu, size_t len, const uint8_t *data)
__CPROVER_requires(pdu != NULL && PDU_WF_MEM(pdu) && PDU_WF_SCALAR(pdu) && pdu->used_size > 0)
__CPROVER_requires(pdu->hdr_size == 0 || pdu->session == NULL)
__CPROVER_requires(G_old_doff == (pdu->data == NULL ? 0 : (size_t)(pdu->data - pdu->token)))
__CPROVER_requires(len > TOKMAX || __CPROVER_r_ok(data, len))
__CPROVER_assigns(*pdu, __CPROVER_object_whole(pdu->token))
__CPROVER_frees(pdu_block_freeable(pdu))
__CPROVER_ensures(__CPROVER_return_value == 0 || __CPROVER_return_value == 1)
__CPROVER_ensures(__CPROVER_return_value == (len <= TOKMAX) || __CPROVER_return_value == 0)
__CPROVER_ensures(POST_UPDTOK_SHAPE(__CPROVER_return_value, pdu, len, __CPROVER_old(pdu->used_size), __CPROVER_old(pdu->e_token_length), \
                                    G_old_doff))
__CPROVER_ensures(POST_UPDTOK_EXT(__CPROVER_return_value, pdu, len))
__CPROVER_ensures(POST_UPDTOK_REFUSED(__CPROVER_return_value, pdu, __CPROVER_old(pdu->used_size), __CPROVER_old(pdu->e_token_length), \
                                    G_old_doff, __CPROVER_old(pdu->alloc_size)))
;
#endif
