/* spec/lock_ghost.h -- sequential ghost model of the global lock for the C13 units.
 * The pthread stubs maintain G_held ("the mutex is held by this thread") and assert the two things a
 * sequential contract can say about deadlock: a thread never locks the (non-recursive) mutex it already holds,
 * and never unlocks a mutex it does not hold.  G_me is this thread's id (arbitrary, non-zero). */
#ifndef VERIF_LOCK_GHOST_H
#define VERIF_LOCK_GHOST_H
#include <pthread.h>
int G_held; pthread_t G_me; int G_mutex_ops;
#ifndef VERIF_NATIVE
pthread_t pthread_self(void) { return G_me; }
int pthread_mutex_lock(pthread_mutex_t *m) { (void)m; __CPROVER_assert(!G_held, "no self-deadlock: the mutex is not already held by this thread"); G_held = 1; G_mutex_ops++; return 0; }
int pthread_mutex_unlock(pthread_mutex_t *m) { (void)m; __CPROVER_assert(G_held, "unlock only a mutex that is held"); G_held = 0; G_mutex_ops++; return 0; }
#endif
/* representation invariant of (global_lock, G_held) as seen by this thread */
#define I_LOCK() ((G_held == (global_lock.pid == G_me)) && (G_held || global_lock.lock_count == 0) && \
                  global_lock.lock_count <= global_lock.in_callback && global_lock.in_callback < 1000000u)
#endif
