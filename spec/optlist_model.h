/* spec/optlist_model.h -- abstract model of the option region of a message: an ordered list of
 * (absolute option number, value length, value position), obtained by an independent spec-level walk
 * (RFC 7252 3.1 macros) over the bytes.  Used by the bounded-tier model-equality units (C04, C01). */
#ifndef VERIF_OPTLIST_MODEL_H
#define VERIF_OPTLIST_MODEL_H
#include "spec/rfc7252_opt.h"
#ifndef KMAX
#define KMAX 4
#endif
struct optm { uint32_t num, len; size_t pos, vpos; };
struct optlist_m { int n; struct optm o[KMAX]; size_t stop; /* offset of the first byte after the options */ };
/* walk b[start, end): returns 1 and fills m if the region is a sequence of at most KMAX well-formed options
 * followed by end-of-region or a 0xFF marker; 0 otherwise */
static inline int spec_decode_options(const uint8_t *b, size_t start, size_t end, struct optlist_m *m) {
  size_t p = start; uint32_t num = 0; m->n = 0;
  for (int i = 0; i < KMAX + 1; i++) {
    if (p >= end || b[p] == 0xFF) break;
    if (m->n == KMAX) return 0;
    if (!WELLFORMED(b + p, end - p)) return 0;
    num += DELTA(b + p);
    if (num > 65535u) return 0;
    m->o[m->n].num = num; m->o[m->n].len = LENV(b + p); m->o[m->n].pos = p; m->o[m->n].vpos = p + HDR(b + p);
    p += HDR(b + p) + LENV(b + p);
    m->n++;
  }
  m->stop = p;
  return 1;
}
#endif
