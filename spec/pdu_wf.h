/* spec/pdu_wf.h -- the data-structure invariant of coap_pdu_t as used by the PDU-level contracts,
 * and the harness-side construction of an arbitrary PDU that satisfies it.
 *
 * Layout (include/coap3/coap_pdu_internal.h): one heap block  [hdr space: max_hdr_size][token|options|FF payload]
 * pdu->token points max_hdr_size bytes into the block; alloc_size bytes are usable from token (the block may be
 * larger: coap_pdu_resize() lowers alloc_size without shrinking the block); used_size <= alloc_size of them are used.
 */
#ifndef VERIF_PDU_WF_H
#define VERIF_PDU_WF_H
#include "spec/vin.h"

#define MAXRX ((size_t)COAP_DEFAULT_MAX_PDU_RX_SIZE)
#define TOKMAX 65804u                                     /* RFC 8974: 13 + 256 + 65535 */
#define BIAS(len) ((len) < 13u ? 0u : (len) < 269u ? 1u : 2u)  /* RFC 8974 extended-token length bytes */
#define TKLNIB(len) ((len) < 13u ? (uint32_t)(len) : (len) < 269u ? 13u : 14u)

/* scalar part of the invariant (plain C, also evaluated natively) */
#define PDU_WF_SCALAR(p) ( \
  (p)->max_hdr_size >= 4 && (p)->max_hdr_size <= 6 && (p)->hdr_size <= (p)->max_hdr_size && \
  (p)->max_size <= MAXRX && ((p)->max_size == 0 || (p)->alloc_size <= (p)->max_size) && \
  (p)->used_size <= (p)->alloc_size && \
  (p)->actual_token.length <= TOKMAX && \
  (p)->e_token_length == (p)->actual_token.length + BIAS((p)->actual_token.length) && \
  (p)->e_token_length <= (p)->used_size && \
  ((p)->data == NULL || ((p)->data > (p)->token + (p)->e_token_length && (p)->data < (p)->token + (p)->used_size)))

/* memory part, for asserted positions (call sites of replaced callees) */
#define PDU_WF_MEM(p) (__CPROVER_w_ok((p), sizeof(*(p))) && \
  __CPROVER_w_ok((p)->token - (p)->max_hdr_size, (size_t)(p)->max_hdr_size + (p)->alloc_size))

/* bound on alloc_size for a unit: proof tier = everything coap_pdu_init() admits; bounded tier = CAP */
#ifndef PDU_MAXA
#define PDU_MAXA MAXRX
#endif
#ifndef CAPW
#define CAPW 64
#endif

/* Declares the named inputs and builds `pdu` (arbitrary, satisfying the invariant) in the harness scope.
 * need_used: 1 = used_size > 0.  The block has max_hdr_size + alloc_size + phys_extra bytes. */
#ifdef VERIF_NATIVE
#define VH_PDU_ALLOC() calloc(1, sizeof(coap_pdu_t))
#else
#define VH_PDU_ALLOC() malloc(sizeof(coap_pdu_t))
#endif
/* the heap block: exactly max_hdr_size+alloc_size+phys_extra bytes (default), or -- bounded tier, where every
 * object must have a compile-time size for byte-content reasoning -- exactly PDU_FIXED_BLOCK bytes */
#ifdef PDU_FIXED_BLOCK
#define VH_PDU_BLOCK() ASSUME((size_t)max_hdr_size + alloc_size + phys_extra <= PDU_FIXED_BLOCK); IN_BUF_FIXED(blk, PDU_FIXED_BLOCK)
#else
#define VH_PDU_BLOCK() size_t blk_size = (size_t)max_hdr_size + alloc_size + phys_extra; IN_BUF(blk, blk_size, CAPW)
#endif
/* a unit may pin layout parameters that its function never looks at to constants (assignments, so that cbmc's constant
 * propagation sees them): the values must satisfy the assumptions above */
#ifndef VH_PDU_FIX
#define VH_PDU_FIX do { } while (0)
#endif
#define HARNESS_PDU(pdu) \
  IN_SCALAR(uint8_t, max_hdr_size); IN_SCALAR(uint8_t, hdr_size); \
  IN_SCALAR(size_t, alloc_size); IN_SCALAR(size_t, used_size); IN_SCALAR(size_t, max_size); \
  IN_SCALAR(size_t, phys_extra); IN_SCALAR(size_t, tok_len); IN_SCALAR(size_t, data_off); \
  IN_SCALAR(uint16_t, max_opt); IN_SCALAR(uint8_t, ptype); IN_SCALAR(uint8_t, pcode); IN_SCALAR(uint16_t, pmid); \
  ASSUME(max_hdr_size >= 4 && max_hdr_size <= 6 && hdr_size <= max_hdr_size); \
  ASSUME(alloc_size <= PDU_MAXA && phys_extra <= 8 && max_size <= MAXRX && (max_size == 0 || alloc_size <= max_size)); \
  ASSUME(used_size <= alloc_size && tok_len <= TOKMAX && tok_len + BIAS(tok_len) <= used_size); \
  ASSUME(data_off == 0 || (data_off > tok_len + BIAS(tok_len) && data_off < used_size)); \
  ASSUME(ptype <= 3); \
  VH_PDU_FIX; \
  VH_PDU_BLOCK(); \
  coap_pdu_t *pdu = VH_PDU_ALLOC(); ASSUME(pdu != NULL); \
  pdu->max_hdr_size = max_hdr_size; pdu->hdr_size = hdr_size; pdu->alloc_size = alloc_size; \
  pdu->used_size = used_size; pdu->max_size = max_size; pdu->token = blk + max_hdr_size; \
  pdu->actual_token.length = tok_len; pdu->actual_token.s = pdu->token + BIAS(tok_len); \
  pdu->e_token_length = (uint32_t)(tok_len + BIAS(tok_len)); \
  pdu->data = data_off ? pdu->token + data_off : NULL; pdu->max_opt = max_opt; \
  pdu->type = (coap_pdu_type_t)ptype; pdu->code = (coap_pdu_code_t)pcode; pdu->mid = pmid
#endif
