/* spec/tcp_len.h -- RFC 8323 section 3.2 (CoAP over TCP/TLS framing), RFC 8323 section 4 (WebSockets: Len = 0),
 * RFC 7252 section 3 (UDP header) and RFC 8974 section 2.1 (extended token length) as plain C expressions.
 * d = pointer to the first header byte.  Written from the RFC text. */
#ifndef VERIF_SPEC_TCP_LEN_H
#define VERIF_SPEC_TCP_LEN_H
#define TCP_NIB(d) ((uint32_t)((d)[0] >> 4))
#define TCP_EXT(nib) ((nib) < 13u ? 0u : (nib) == 13u ? 1u : (nib) == 14u ? 2u : 4u)
#define TCP_HDRSZ(d) (2u + TCP_EXT(TCP_NIB(d)))
/* Length field: options + payload (token not included) */
#define TCP_LENGTH(d) (TCP_NIB(d) < 13u ? (uint64_t)TCP_NIB(d) : \
                       TCP_NIB(d) == 13u ? (uint64_t)(d)[1] + 13u : \
                       TCP_NIB(d) == 14u ? ((((uint64_t)(d)[1]) << 8) | (d)[2]) + 269u : \
                       ((((uint64_t)(d)[1]) << 24) | (((uint64_t)(d)[2]) << 16) | (((uint64_t)(d)[3]) << 8) | (d)[4]) + 65805u)
#define TKL_NIB(d) ((uint32_t)((d)[0] & 15))
#define TKL_EXT(tkl) ((tkl) == 13u ? 1u : (tkl) == 14u ? 2u : 0u)
/* t = pointer to the byte following the fixed header (first token / extended-token-length byte).
 * E_TOKLEN = bytes occupied by extension bytes + token; 15 is reserved (defined as 0 here). */
#define TOKLEN(tkl, t) ((tkl) < 13u ? (tkl) : (tkl) == 13u ? (uint32_t)(t)[0] + 13u : \
                        (tkl) == 14u ? ((((uint32_t)(t)[0]) << 8) | (t)[1]) + 269u : 0u)
#define E_TOKLEN(tkl, t) ((tkl) == 15u ? 0u : TOKLEN(tkl, t) + TKL_EXT(tkl))
#define IS_TCPTLS(p) ((p) == COAP_PROTO_TCP || (p) == COAP_PROTO_TLS)
#define IS_WS(p) ((p) == COAP_PROTO_WS || (p) == COAP_PROTO_WSS)
#define IS_DGRAM(p) ((p) == COAP_PROTO_UDP || (p) == COAP_PROTO_DTLS)
#define PROTO_HDRSZ(p, d) (IS_TCPTLS(p) ? TCP_HDRSZ(d) : IS_WS(p) ? 2u : IS_DGRAM(p) ? 4u : 0u)
#endif
