/* stubs/mem_havoc.h -- proof-tier model of mem*: assert the exact readable/writable ranges the C
 * standard requires, then havoc the destination. Proves where and how much is copied, nothing
 * about which bytes. (Native replay uses libc.) */
#ifndef VERIF_STUBS_MEM_HAVOC_H
#define VERIF_STUBS_MEM_HAVOC_H
#ifndef VERIF_NATIVE
int nondet_memcmp_result(void);
void *memmove(void *d, const void *s, size_t n) {
  __CPROVER_assert(__CPROVER_r_ok(s, n), "memmove source readable for n bytes");
  __CPROVER_assert(__CPROVER_w_ok(d, n), "memmove destination writable for n bytes");
  if (n) __CPROVER_havoc_slice(d, n);
  return d;
}
void *memcpy(void *d, const void *s, size_t n) {
  __CPROVER_assert(__CPROVER_r_ok(s, n), "memcpy source readable for n bytes");
  __CPROVER_assert(__CPROVER_w_ok(d, n), "memcpy destination writable for n bytes");
  if (n) __CPROVER_havoc_slice(d, n);
  return d;
}
/* memset: exact for small blocks (struct clearing matters to contracts), havoc above MEMSET_EXACT bytes */
#ifndef MEMSET_EXACT
#define MEMSET_EXACT 96
#endif
void *memset(void *d, int c, size_t n) {
  __CPROVER_assert(__CPROVER_w_ok(d, n), "memset destination writable for n bytes");
  if (n <= MEMSET_EXACT) {
    unsigned char *dd = d;
    for (size_t i = 0; i < MEMSET_EXACT; i++) if (i < n) dd[i] = (unsigned char)c;
  } else {
    __CPROVER_havoc_slice(d, n);
  }
  return d;
}
int memcmp(const void *a, const void *b, size_t n) {
  __CPROVER_assert(__CPROVER_r_ok(a, n), "memcmp first operand readable for n bytes");
  __CPROVER_assert(__CPROVER_r_ok(b, n), "memcmp second operand readable for n bytes");
  return nondet_memcmp_result();
}
#endif
#endif
