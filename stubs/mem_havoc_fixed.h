/* stubs/mem_havoc_fixed.h -- mem* for units in which every object has a compile-time size <= MEMCAP: assert the exact
 * readable/writable ranges the C standard requires, then overwrite the destination range with arbitrary bytes by a loop with
 * a constant trip count (cbmc's __CPROVER_havoc_slice with a symbolic length is a byte_update of non-constant size, whose
 * propositional encoding ran out of memory even on 70-byte objects).  Proves where and how much is copied, nothing about
 * which bytes. */
#ifndef VERIF_STUBS_MEM_HAVOC_FIXED_H
#define VERIF_STUBS_MEM_HAVOC_FIXED_H
#ifndef VERIF_NATIVE
#ifndef MEMCAP
#error "MEMCAP (largest object size of the unit) must be defined"
#endif
#ifndef MEMCPYCAP
#define MEMCPYCAP MEMCAP      /* largest memcpy/memmove length of the unit (an obligation: asserted at every call) */
#endif
unsigned char nondet_membyte(void); int nondet_memcmp_result(void);
static void vh_havoc(void *d, size_t n) { unsigned char *dd = d; for (size_t i = 0; i < MEMCPYCAP; i++) if (i < n) dd[i] = nondet_membyte(); }
void *memmove(void *d, const void *s, size_t n) {
  __CPROVER_assert(__CPROVER_r_ok(s, n), "memmove source readable for n bytes");
  __CPROVER_assert(__CPROVER_w_ok(d, n), "memmove destination writable for n bytes");
  __CPROVER_assert(n <= MEMCPYCAP, "memmove length within the unit's capacity");
#ifdef VH_MEMMOVE_HOOK
  VH_MEMMOVE_HOOK(d, s, n);
#endif
  vh_havoc(d, n); return d;
}
void *memcpy(void *d, const void *s, size_t n) {
  __CPROVER_assert(__CPROVER_r_ok(s, n), "memcpy source readable for n bytes");
  __CPROVER_assert(__CPROVER_w_ok(d, n), "memcpy destination writable for n bytes");
  __CPROVER_assert(n <= MEMCPYCAP, "memcpy length within the unit's capacity");
  vh_havoc(d, n); return d;
}
void *memset(void *d, int c, size_t n) {
  __CPROVER_assert(__CPROVER_w_ok(d, n), "memset destination writable for n bytes");
  __CPROVER_assert(n <= MEMCAP, "memset length within the unit's capacity");
  unsigned char *dd = d; for (size_t i = 0; i < MEMCAP; i++) if (i < n) dd[i] = (unsigned char)c;
  return d;
}
int memcmp(const void *a, const void *b, size_t n) {
  __CPROVER_assert(__CPROVER_r_ok(a, n), "memcmp first operand readable for n bytes");
  __CPROVER_assert(__CPROVER_r_ok(b, n), "memcmp second operand readable for n bytes");
  return nondet_memcmp_result();
}
#endif
#endif
