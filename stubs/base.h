/* stubs/base.h -- trusted stubs shared by all units.
 *  allocator: every coap_malloc_type / coap_realloc_type call may fail independently
 *             (so each unit quantifies over every subset of failing allocation sites);
 *             otherwise a fresh block of exactly the requested size.
 *  logging:   no effect; the log level is an arbitrary value in 0..8 so that every
 *             `if (level <= coap_get_log_level())` branch is explored.
 */
#ifndef VERIF_STUBS_BASE_H
#define VERIF_STUBS_BASE_H
#include <stdlib.h>
#ifdef VERIF_NATIVE
void *coap_malloc_type(coap_memory_tag_t type, size_t size) { (void)type; if (vin_next_choice("alloc_fail")) return NULL; return malloc(size); }
void *coap_realloc_type(coap_memory_tag_t type, void *p, size_t size) { (void)type; if (vin_next_choice("alloc_fail")) return NULL; return realloc(p, size); }
void coap_free_type(coap_memory_tag_t type, void *p) { (void)type; free(p); }
coap_log_t coap_get_log_level(void) { return (coap_log_t)vin_scalar("log_level"); }
void coap_log_impl(coap_log_t level, const char *format, ...) { (void)level; (void)format; }
#else
_Bool nondet_alloc_fail(void);
unsigned long G_allocs;     /* ghost: blocks currently owned through the library allocator (leak accounting of the C18 units) */
void *coap_malloc_type(coap_memory_tag_t type, size_t size) {
  (void)type;
  _Bool alloc_fail = nondet_alloc_fail();
  if (alloc_fail) return NULL;
  void *q = malloc(size);
  if (q) G_allocs++;
  return q;
}
void *coap_realloc_type(coap_memory_tag_t type, void *p, size_t size) {
  (void)type;
  _Bool alloc_fail = nondet_alloc_fail();
  if (alloc_fail) return NULL;
#ifdef VERIF_REALLOC_COPIES
  return realloc(p, size);               /* bounded tier: contents of the common prefix preserved */
#else
  /* proof tier: a fresh block of exactly `size` bytes with arbitrary contents, old block released.
   * Over-approximates realloc (contents havocked); byte-content clauses live in the bounded tier. */
  void *q = malloc(size);
  if (q == NULL) return NULL;
  if (p == NULL) G_allocs++;
  free(p);
  return q;
#endif
}
void coap_free_type(coap_memory_tag_t type, void *p) { (void)type; if (p) G_allocs--; free(p); }
coap_log_t nondet_log_level(void);
coap_log_t coap_get_log_level(void) {
  coap_log_t log_level = nondet_log_level();
  __CPROVER_assume(log_level >= 0 && log_level <= 8);
  return log_level;
}
void coap_log_impl(coap_log_t level, const char *format, ...) { (void)level; (void)format; }
#endif
#endif
