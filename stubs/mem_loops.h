/* stubs/mem_loops.h -- bounded-tier model of mem*: explicit byte loops (real byte semantics).
 * Loops are closed by --unwindset with unwinding assertions; bound = unit capacity. */
#ifndef VERIF_STUBS_MEM_LOOPS_H
#define VERIF_STUBS_MEM_LOOPS_H
#ifndef VERIF_NATIVE
void *memmove(void *d, const void *s, size_t n) {
  __CPROVER_assert(__CPROVER_r_ok(s, n), "memmove source readable for n bytes");
  __CPROVER_assert(__CPROVER_w_ok(d, n), "memmove destination writable for n bytes");
  unsigned char *dd = d; const unsigned char *ss = s;
  if (dd < ss) { for (size_t i = 0; i < n; i++) dd[i] = ss[i]; }
  else { for (size_t i = n; i > 0; i--) dd[i - 1] = ss[i - 1]; }
  return d;
}
void *memcpy(void *d, const void *s, size_t n) {
  /* (a zero-length copy from/to a null pointer is accepted: defined in C23, and what oscore_cbor_put_bytes(.., NULL, 0) does) */
  __CPROVER_assert(n == 0 || __CPROVER_r_ok(s, n), "memcpy source readable for n bytes");
  __CPROVER_assert(n == 0 || __CPROVER_w_ok(d, n), "memcpy destination writable for n bytes");
  unsigned char *dd = d; const unsigned char *ss = s;
  for (size_t i = 0; i < n; i++) dd[i] = ss[i];
  return d;
}
void *memset(void *d, int c, size_t n) {
  __CPROVER_assert(__CPROVER_w_ok(d, n), "memset destination writable for n bytes");
  unsigned char *dd = d;
  for (size_t i = 0; i < n; i++) dd[i] = (unsigned char)c;
  return d;
}
int memcmp(const void *a, const void *b, size_t n) {
  __CPROVER_assert(__CPROVER_r_ok(a, n), "memcmp first operand readable for n bytes");
  __CPROVER_assert(__CPROVER_r_ok(b, n), "memcmp second operand readable for n bytes");
  const unsigned char *aa = a, *bb = b;
  for (size_t i = 0; i < n; i++) if (aa[i] != bb[i]) return aa[i] < bb[i] ? -1 : 1;
  return 0;
}
void *memchr(const void *s, int c, size_t n) {
  __CPROVER_assert(__CPROVER_r_ok(s, n), "memchr operand readable for n bytes");
  const unsigned char *ss = s;
  for (size_t i = 0; i < n; i++) if (ss[i] == (unsigned char)c) return (void *)(ss + i);
  return (void *)0;
}
#endif
#endif
