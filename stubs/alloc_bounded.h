/* stubs/alloc_bounded.h -- bounded-tier allocator: may fail; otherwise a fresh block of exactly the requested
 * ALLOC_CAP bytes (every object of the bounded tier has a compile-time size; requests above ALLOC_CAP are outside
 * the bounded domain; writes beyond the *requested* size are caught by the units' canary/invariant clauses, exact
 * block sizes are the proof tier's job); realloc preserves the prefix by an explicit byte loop. */
#ifndef VERIF_STUBS_ALLOC_BOUNDED_H
#define VERIF_STUBS_ALLOC_BOUNDED_H
#include <stdlib.h>
#ifndef ALLOC_CAP
#define ALLOC_CAP 64
#endif
#ifdef VERIF_NATIVE
size_t vh_last_alloc_size;
void *coap_malloc_type(coap_memory_tag_t type, size_t size) { (void)type; if (vin_next_choice("alloc_fail")) return NULL; return malloc(size); }
void *coap_realloc_type(coap_memory_tag_t type, void *p, size_t size) { (void)type; if (vin_next_choice("alloc_fail")) return NULL; return realloc(p, size); }
void coap_free_type(coap_memory_tag_t type, void *p) { (void)type; free(p); }
coap_log_t coap_get_log_level(void) { return (coap_log_t)vin_scalar("log_level"); }
void coap_log_impl(coap_log_t level, const char *format, ...) { (void)level; (void)format; }
#else
#ifndef VH_ALLOC_FAIL_HOOK
#define VH_ALLOC_FAIL_HOOK() ((void)0)
#endif
_Bool nondet_alloc_fail(void);
void *coap_malloc_type(coap_memory_tag_t type, size_t size) {
  (void)type;
  _Bool alloc_fail = nondet_alloc_fail();
  if (alloc_fail) { VH_ALLOC_FAIL_HOOK(); return NULL; }
  __CPROVER_assume(size <= ALLOC_CAP);
  void *q = malloc(ALLOC_CAP);           /* constant-size object (see DESIGN 2.5): requests are <= ALLOC_CAP */
  __CPROVER_assume(q != NULL);
  return q;
}
void *coap_realloc_type(coap_memory_tag_t type, void *p, size_t size) {
  (void)type;
  _Bool alloc_fail = nondet_alloc_fail();
  if (alloc_fail) { VH_ALLOC_FAIL_HOOK(); return NULL; }
  __CPROVER_assume(size <= ALLOC_CAP);
  unsigned char *q = malloc(ALLOC_CAP);  /* constant-size object; the old block has ALLOC_CAP bytes too */
  __CPROVER_assume(q != NULL);
  if (p) {
#ifndef VH_REALLOC_NO_COPY       /* units that track no byte contents skip the copy loop: the new block has arbitrary contents */
    const unsigned char *pp = p;
    for (size_t i = 0; i < ALLOC_CAP; i++) if (i < size) q[i] = pp[i];
#endif
    free(p);
  }
  return q;
}
void coap_free_type(coap_memory_tag_t type, void *p) { (void)type; free(p); }
coap_log_t nondet_log_level(void);
coap_log_t coap_get_log_level(void) {
  coap_log_t log_level = nondet_log_level();
  __CPROVER_assume(log_level >= 0 && log_level <= 8);
  return log_level;
}
void coap_log_impl(coap_log_t level, const char *format, ...) { (void)level; (void)format; }
#endif
#endif
