/* stubs/time_prng.h -- clock and PRNG: arbitrary values (trusted: they have no other effect) */
#ifndef VERIF_STUBS_TIME_PRNG_H
#define VERIF_STUBS_TIME_PRNG_H
#ifdef VERIF_NATIVE
void coap_ticks(coap_tick_t *t) { *t = (coap_tick_t)vin_scalar("stubin_ticks"); }
#else
coap_tick_t nondet_stubin_ticks(void);
coap_tick_t G_last_ticks;   /* ghost: the value the clock stub returned last */
void coap_ticks(coap_tick_t *t) { coap_tick_t stubin_ticks = nondet_stubin_ticks(); G_last_ticks = stubin_ticks; *t = stubin_ticks; }
#endif
#endif
