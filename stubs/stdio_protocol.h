/* stubs/stdio_protocol.h -- ghost model of the stdio / rename calls made by the persistence code (C17).
 * Two files: the LIVE save file (path pointer == G_live_path) and anything else = the temporary file.
 * Every call may fail independently.  The stubs assert the write-new-then-rename protocol:
 *  (1) the live file is only ever opened for reading;  (2) rename(tmp, live) happens only after every write to tmp
 *  and the fflush on it succeeded and tmp was closed;  (3) remove() is only applied to the temporary file;
 *  the harness checks (4) no rename on a failure return, tmp removed, no stream left open. */
#ifndef VERIF_STDIO_PROTOCOL_H
#define VERIF_STDIO_PROTOCOL_H
#include <stdio.h>
const char *G_live_path; int G_live_ever;
int G_live_open, G_tmp_open, G_tmp_created, G_tmp_write_failed, G_tmp_writes, G_tmp_flushed, G_tmp_flush_failed, G_renamed, G_tmp_removed, G_reads, G_read_limit;
static FILE *const G_live_fp = (FILE *)&G_live_open, *const G_tmp_fp = (FILE *)&G_tmp_open;
_Bool nondet_io_fail(void); uint8_t nondet_io_byte(void);
FILE *fopen(const char *path, const char *mode) {
  if (path == G_live_path) {
    __CPROVER_assert(mode[0] == 'r' && mode[1] == 0, "the live save file is only ever opened read-only (mode \"r\")");
    if (nondet_io_fail()) return NULL;
    G_live_open++; G_live_ever++; return G_live_fp;
  }
  if (nondet_io_fail()) return NULL;
  G_tmp_open++; G_tmp_created = 1; G_tmp_removed = 0; G_tmp_flushed = 0; return G_tmp_fp;
}
int fclose(FILE *fp) {
  if (fp == G_live_fp) { __CPROVER_assert(G_live_open > 0, "fclose of an open stream"); G_live_open--; }
  else { __CPROVER_assert(fp == G_tmp_fp && G_tmp_open > 0, "fclose of an open stream"); G_tmp_open--; }
  return 0;
}
int fflush(FILE *fp) {
  __CPROVER_assert(fp == G_tmp_fp && G_tmp_open > 0, "fflush on the open temporary file");
  if (nondet_io_fail()) { G_tmp_flush_failed = 1; return EOF; }
  G_tmp_flushed = 1; return 0;
}
int ferror(FILE *fp) { (void)fp; return nondet_io_fail(); }
int fprintf(FILE *fp, const char *fmt, ...) {
  (void)fmt;
  __CPROVER_assert(fp == G_tmp_fp && G_tmp_open > 0, "records are only written to the open temporary file, never to the live file");
  G_tmp_writes++; G_tmp_flushed = 0;
  if (nondet_io_fail()) { G_tmp_write_failed = 1; return -1; }
  return 1;
}
size_t fwrite(const void *p, size_t sz, size_t n, FILE *fp) {
  (void)p; (void)sz;
  __CPROVER_assert(fp == G_tmp_fp && G_tmp_open > 0, "records are only written to the open temporary file, never to the live file");
  G_tmp_writes++; G_tmp_flushed = 0;
  if (nondet_io_fail()) { G_tmp_write_failed = 1; return 0; }
  return n;
}
/* a record line "k v\n": at most G_read_limit lines, 4 characters each */
char *fgets(char *buf, int size, FILE *fp) {
  __CPROVER_assert(fp == G_live_fp && G_live_open > 0, "records are only read from the open live file");
  __CPROVER_assert(size >= 6, "line buffer");
  if (G_reads >= G_read_limit || nondet_io_fail()) return NULL;
  G_reads++;
  buf[0] = nondet_io_byte(); buf[1] = nondet_io_byte(); buf[2] = nondet_io_byte(); buf[3] = nondet_io_byte(); buf[4] = '\n'; buf[5] = 0;
  __CPROVER_assume(buf[0] != 0 && buf[1] != 0 && buf[2] != 0 && buf[3] != 0);
  return buf;
}
/* units that read binary records with a length field (observe records): a bounded-tier switch makes every 8-byte read a length
 * in -1..G_SIZE_MAX so that the record bodies allocated from it have bounded size */
#ifndef FREAD_CAP
#define FREAD_CAP 320
#endif
#ifndef G_SIZE_MAX
#define G_SIZE_MAX 8
#endif
int G_size_reads_bounded; long nondet_io_size(void);
size_t fread(void *p, size_t sz, size_t n, FILE *fp) {
  __CPROVER_assert(fp == G_live_fp && G_live_open > 0, "records are only read from the open live file");
  __CPROVER_assert(__CPROVER_w_ok(p, sz * n), "fread destination writable");
  if (G_reads >= G_read_limit || nondet_io_fail()) return 0;
  G_reads++;
  if (G_size_reads_bounded && sz * n == sizeof(long)) { long v = nondet_io_size(); __CPROVER_assume(v >= -1 && v <= G_SIZE_MAX); *(long *)p = v; return n; }
  /* arbitrary bytes by a constant-trip loop (__CPROVER_havoc_slice on struct objects made cbmc 6.11 abort in boolbv_get) */
  __CPROVER_assert(sz * n <= FREAD_CAP, "fread size within the stub's capacity");
  { unsigned char *pp = p; for (size_t i = 0; i < FREAD_CAP; i++) if (i < sz * n) pp[i] = nondet_io_byte(); }
  return n;
}
int rename(const char *from, const char *to) {
  __CPROVER_assert(to == G_live_path && from != G_live_path, "rename replaces the live file by the temporary file");
  __CPROVER_assert(G_tmp_created && !G_tmp_write_failed, "rename only after every record was written successfully");
  __CPROVER_assert(G_tmp_flushed && !G_tmp_flush_failed, "rename only after the temporary file was flushed successfully (and nothing written since)");
  __CPROVER_assert(G_tmp_open == 0, "rename only after the temporary file was closed");
  G_renamed++;
  return nondet_io_fail() ? -1 : 0;
}
int remove(const char *path) {
  __CPROVER_assert(path != G_live_path, "remove() is never applied to the live save file");
  G_tmp_removed = 1;
  return 0;
}
#endif
