#include "coap3/coap_libcoap_build.h"
coap_opt_t *coap_option_next_contract(coap_opt_iterator_t *oi)
__CPROVER_requires(__CPROVER_is_fresh(oi, sizeof(*oi)) && !oi->filtered && oi->length <= 70000)
__CPROVER_requires(oi->bad || oi->length == 0 || __CPROVER_is_fresh(oi->next_option, oi->length))
__CPROVER_assigns(*oi)
__CPROVER_ensures(__CPROVER_return_value == NULL ==> oi->bad)
__CPROVER_ensures(__CPROVER_return_value != NULL ==> (!oi->bad &&
    __CPROVER_return_value == __CPROVER_old(oi->next_option) &&
    oi->length < __CPROVER_old(oi->length) &&
    __CPROVER_same_object(oi->next_option, __CPROVER_return_value) &&
    (size_t)(oi->next_option - __CPROVER_return_value) == __CPROVER_old(oi->length) - oi->length))
;
#include "/repo/src/coap_option.c"
#include "stubs.h"
void harness(void) {
  coap_opt_iterator_t *oi;
  coap_opt_t *r = coap_option_next(oi);
  __CPROVER_assert(0, "vacuity.end_reachable");
  __CPROVER_assert(r == NULL, "vacuity.accept_reachable");
}
