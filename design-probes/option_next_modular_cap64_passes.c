#include "coap3/coap_libcoap_build.h"
#define DN(o) ((o)[0] >> 4)
#define LN(o) ((o)[0] & 15)
#define DX(o) (DN(o) == 13 ? 1u : DN(o) == 14 ? 2u : 0u)
#define LX(o) (LN(o) == 13 ? 1u : LN(o) == 14 ? 2u : 0u)
#define HDR(o) (1u + DX(o) + LX(o))
#define DELTA(o) (DN(o) < 13 ? (uint32_t)DN(o) : DN(o) == 13 ? (uint32_t)(o)[1] + 13u : (((uint32_t)(o)[1] << 8) | (o)[2]) + 269u)
#define LENV(o) (LN(o) < 13 ? (uint32_t)LN(o) : LN(o) == 13 ? (uint32_t)(o)[1 + DX(o)] + 13u : (((uint32_t)(o)[1 + DX(o)] << 8) | (o)[2 + DX(o)]) + 269u)
#define WELLFORMED(o, n) ((n) >= 1 && DN(o) != 15 && LN(o) != 15 && (n) >= HDR(o) && DELTA(o) <= 65535u && (n) >= HDR(o) + LENV(o))
/* ghost: the buffer the iterator walks */
const uint8_t *GB; size_t GN;
#define IN_BUF(p, n) (__CPROVER_same_object((p), GB) && (n) <= GN && __CPROVER_POINTER_OFFSET(p) == GN - (n))

size_t coap_opt_parse_contract(const coap_opt_t *opt, size_t length, coap_option_t *result)
__CPROVER_requires(IN_BUF(opt, length) && length >= 1)
__CPROVER_requires(__CPROVER_w_ok(result, sizeof(*result)))
__CPROVER_assigns(*result)
__CPROVER_ensures((__CPROVER_return_value != 0) == WELLFORMED(opt, length))
__CPROVER_ensures(__CPROVER_return_value != 0 ==> (__CPROVER_return_value == HDR(opt) + LENV(opt) && result->delta == DELTA(opt) && result->length == LENV(opt) && result->value == opt + HDR(opt)))
;
#define OI_WF(oi) ((oi)->bad || (oi)->length == 0 || (__CPROVER_pointer_in_range_dfcc(GB, (oi)->next_option, GB + GN) && IN_BUF((oi)->next_option, (oi)->length)))
coap_opt_t *coap_option_next_contract(coap_opt_iterator_t *oi)
__CPROVER_requires(__CPROVER_is_fresh(oi, sizeof(*oi)) && OI_WF(oi) && !oi->filtered)
__CPROVER_assigns(*oi)
__CPROVER_ensures(OI_WF(oi))
__CPROVER_ensures(__CPROVER_return_value == NULL ==> oi->bad)
__CPROVER_ensures(__CPROVER_return_value != NULL ==> (!oi->bad &&
    __CPROVER_return_value == __CPROVER_old(oi->next_option) &&
    WELLFORMED(__CPROVER_return_value, __CPROVER_old(oi->length)) &&
    oi->next_option == __CPROVER_return_value + HDR(__CPROVER_return_value) + LENV(__CPROVER_return_value) &&
    oi->length == __CPROVER_old(oi->length) - (HDR(__CPROVER_return_value) + LENV(__CPROVER_return_value)) &&
    oi->number == (uint16_t)(__CPROVER_old(oi->number) + DELTA(__CPROVER_return_value))))
;
#include "/repo/src/coap_option.c"
#include "stubs.h"
void harness(void) {
  size_t n = 64;
  uint8_t *buf = malloc(64); __CPROVER_assume(buf);
  GB = buf; GN = n;
  coap_opt_iterator_t *oi;
  coap_opt_t *r = coap_option_next(oi);
  __CPROVER_assert(0, "vacuity.end_reachable");
  __CPROVER_assert(r == NULL, "vacuity.accept_reachable");
}
