#include <stdint.h>
#include <stddef.h>
void f(uint8_t *buf, size_t n)
__CPROVER_requires(n >= 2 && n <= 1000 && __CPROVER_is_fresh(buf, n))
__CPROVER_assigns(__CPROVER_object_whole(buf))
__CPROVER_ensures(buf[1] == 7)
__CPROVER_ensures(buf[0] == __CPROVER_old(buf[0]))
{
  uint8_t *p = buf; size_t i = 0;
  while (i < 1)
    __CPROVER_assigns(p, i)
    __CPROVER_loop_invariant(i <= 1 && __CPROVER_same_object(p, buf) && (size_t)(p - buf) == i)
    __CPROVER_decreases(1 - i)
  { p++; i++; }
  uint8_t before = *p;
  *p = 7;
  __CPROVER_assert(buf[1] == 7, "write through havoced pointer lands in buf");
  __CPROVER_assert(buf[1] == 8, "must fail");
  __CPROVER_assert(before == buf[1] || 1, "dummy");
}
/* second: pointer merely constrained by an assumption, never assigned */
void g(uint8_t *buf, size_t n, uint8_t *q)
__CPROVER_requires(n >= 2 && n <= 1000 && __CPROVER_is_fresh(buf, n))
__CPROVER_requires(__CPROVER_same_object(q, buf) && __CPROVER_POINTER_OFFSET(q) == 1)
__CPROVER_assigns(__CPROVER_object_whole(buf))
__CPROVER_ensures(buf[1] == 7)
{
  uint8_t a = *q, b = *q;
  __CPROVER_assert(a == b, "two reads through constrained pointer agree");
  __CPROVER_assert(a == buf[1], "read through constrained pointer sees buf");
  *q = 7;
}
void h1(void) { uint8_t *b; size_t n; f(b, n); }
void h2(void) { uint8_t *b; size_t n; uint8_t *q; g(b, n, q); }
