#include <stddef.h>
size_t grow(size_t size, size_t start)
{
  size_t new_size = start;
  while (size > new_size)
    new_size *= 2;
  return new_size;
}
size_t grow_contract(size_t size, size_t start)
__CPROVER_requires(start >= 256 && start <= 100000 && size <= 100000)
__CPROVER_assigns()
__CPROVER_ensures(__CPROVER_return_value >= size && __CPROVER_return_value >= start && __CPROVER_return_value <= 200000);
void harness(void){ size_t a,b; grow(a,b); }
