#include "coap3/coap_libcoap_build.h"
#if !COAP_THREAD_SAFE
#error "probe expects locking compiled in"
#endif
/* ghost lock state maintained by the pthread stubs */
int G_held; pthread_t G_me; static int app_event_cb(coap_session_t *s, const coap_event_t e);
int coap_handle_event_lkd_contract(coap_context_t *context, coap_event_t event, coap_session_t *session)
__CPROVER_requires(__CPROVER_is_fresh(context, sizeof(*context)) && __CPROVER_is_fresh(session, sizeof(*session)))
__CPROVER_requires((context->handle_event == NULL || context->handle_event == app_event_cb) && G_held == 1 && global_lock.pid == G_me && global_lock.in_callback >= 0 && global_lock.in_callback < 1000 && global_lock.lock_count == 0)
__CPROVER_assigns(global_lock, G_held)
__CPROVER_ensures(G_held == 1 && global_lock.pid == G_me)
__CPROVER_ensures(global_lock.in_callback == __CPROVER_old(global_lock.in_callback))
__CPROVER_ensures(global_lock.lock_count == 0)
;
#include "/repo/src/coap_net.c"
#include "/repo/src/coap_threadsafe.c"
#include "stubs.h"
pthread_t pthread_self(void) { return G_me; }
int pthread_mutex_lock(pthread_mutex_t *m) { (void)m; __CPROVER_assert(!G_held, "no self-deadlock: mutex not already held by this thread"); G_held = 1; return 0; }
int pthread_mutex_unlock(pthread_mutex_t *m) { (void)m; __CPROVER_assert(G_held, "unlock only when held"); G_held = 0; return 0; }
/* application callback that re-enters the API */
static int app_event_cb(coap_session_t *s, const coap_event_t e) { (void)s; (void)e;
  if (coap_lock_lock_func()) { coap_lock_unlock_func(); }
  int r; return r; }
void coap_proxy_remove_association(coap_session_t *s, int x) { (void)s; (void)x; }
void harness(void) {
  coap_started = 1; coap_event_handler_t keep = app_event_cb; (void)keep;
  coap_context_t *c; coap_event_t e; coap_session_t *s;
  __CPROVER_assume(G_me != 0);
  coap_handle_event_lkd(c, e, s);
}
