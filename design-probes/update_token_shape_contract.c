#include "coap3/coap_libcoap_build.h"
size_t GK; const size_t MAXA_ = MAXA;
#define BIAS(len) ((len) < 13 ? 0u : (len) < 269 ? 1u : 2u)
#define PDU_WF(p) ( \
  (p)->max_hdr_size >= 4 && (p)->max_hdr_size <= 6 && \
  (p)->alloc_size <= 2*MAXA && \
  ((p)->max_size == 0 || (p)->alloc_size <= (p)->max_size) && (p)->max_size <= (size_t)COAP_DEFAULT_MAX_PDU_RX_SIZE && \
  (p)->used_size <= (p)->alloc_size && \
  (p)->e_token_length <= (p)->used_size && \
  __CPROVER_POINTER_OFFSET((p)->token) == (p)->max_hdr_size && \
  __CPROVER_OBJECT_SIZE((p)->token) == (size_t)(p)->max_hdr_size + (p)->alloc_size && \
  __CPROVER_DYNAMIC_OBJECT((p)->token) && \
  ((p)->data == NULL || (__CPROVER_same_object((p)->data, (p)->token) && \
      __CPROVER_POINTER_OFFSET((p)->data) > (p)->max_hdr_size + (size_t)(p)->e_token_length && \
      __CPROVER_POINTER_OFFSET((p)->data) < (p)->max_hdr_size + (p)->used_size)) )

int coap_update_token_contract(coap_pdu_t *pdu, size_t len, const uint8_t *data)
__CPROVER_requires(pdu != NULL && __CPROVER_r_ok(pdu, sizeof(*pdu)) && PDU_WF(pdu))
__CPROVER_requires(pdu->used_size > 0 && pdu->used_size <= MAXA && pdu->hdr_size == 0)
__CPROVER_requires(len <= 65804 && __CPROVER_is_fresh(data, len ? len : 1))
__CPROVER_assigns(*pdu, __CPROVER_object_whole(pdu->token))
__CPROVER_frees(pdu->token)
__CPROVER_ensures(__CPROVER_return_value == 0 || __CPROVER_return_value == 1)
__CPROVER_ensures(__CPROVER_return_value == 1 ==> (PDU_WF(pdu) &&
     pdu->actual_token.length == len &&
     pdu->e_token_length == len + BIAS(len) &&
     pdu->used_size == __CPROVER_old(pdu->used_size) - __CPROVER_old(pdu->e_token_length) + len + BIAS(len) &&
     ((pdu->data == NULL) == (__CPROVER_old(pdu->data) == NULL)) &&
     pdu->actual_token.s == pdu->token + BIAS(len)))
;
#include "/repo/src/coap_pdu.c"
#include "stubs.h"
#include "memstubs.h"
void harness(void) {
  coap_pdu_t *pdu = malloc(sizeof(*pdu));
  __CPROVER_assume(pdu != NULL);
  size_t a; uint8_t h;
  __CPROVER_assume(h >= 4 && h <= 6 && a <= 2*MAXA);
  uint8_t *buf = malloc((size_t)h + a);
  __CPROVER_assume(buf != NULL);
  pdu->token = buf + h; pdu->max_hdr_size = h; pdu->alloc_size = a;
  size_t doff; 
  if (doff) { __CPROVER_assume(doff <= a); pdu->data = pdu->token + doff; } else pdu->data = NULL;
  __CPROVER_assume(GK < MAXA);
  size_t len; const uint8_t *data;
  coap_update_token(pdu, len, data);
}
