#include "coap3/coap_libcoap_build.h"
#define DN(o) ((o)[0] >> 4)
#define LN(o) ((o)[0] & 15)
#define DX(o) (DN(o) == 13 ? 1u : DN(o) == 14 ? 2u : 0u)
#define LX(o) (LN(o) == 13 ? 1u : LN(o) == 14 ? 2u : 0u)
#define HDR(o) (1u + DX(o) + LX(o))
#define DELTA(o) (DN(o) < 13 ? (uint32_t)DN(o) : DN(o) == 13 ? (uint32_t)(o)[1] + 13u : (((uint32_t)(o)[1] << 8) | (o)[2]) + 269u)
#define LENV(o) (LN(o) < 13 ? (uint32_t)LN(o) : LN(o) == 13 ? (uint32_t)(o)[1 + DX(o)] + 13u : (((uint32_t)(o)[1 + DX(o)] << 8) | (o)[2 + DX(o)]) + 269u)
#define WELLFORMED(o, n) ((n) >= 1 && DN(o) != 15 && LN(o) != 15 && (n) >= HDR(o) && DELTA(o) <= 65535u && (n) >= HDR(o) + LENV(o))
/* ghost: the buffer the iterator walks */
const uint8_t *GB; size_t GN;
#define IN_BUF(p, n) (__CPROVER_same_object((p), GB) && (n) <= GN && __CPROVER_POINTER_OFFSET(p) == GN - (n))

size_t coap_opt_parse_contract(const coap_opt_t *opt, size_t length, coap_option_t *result)
__CPROVER_requires(IN_BUF(opt, length) && length >= 1)
__CPROVER_requires(__CPROVER_w_ok(result, sizeof(*result)))
__CPROVER_assigns(*result)
__CPROVER_ensures((__CPROVER_return_value != 0) == WELLFORMED(opt, length))
__CPROVER_ensures(__CPROVER_return_value != 0 ==> (__CPROVER_return_value == HDR(opt) + LENV(opt) && result->delta == DELTA(opt) && result->length == LENV(opt) && result->value == opt + HDR(opt)))
;
size_t wrap_contract(const uint8_t *b, size_t n, coap_option_t *o)
__CPROVER_requires(IN_BUF(b, n) && n >= 1 && __CPROVER_is_fresh(o, sizeof(*o)))
__CPROVER_assigns(*o)
__CPROVER_ensures(__CPROVER_return_value <= n)
__CPROVER_ensures(__CPROVER_return_value == 0 || __CPROVER_return_value == HDR(b) + LENV(b))
;
#include "/repo/src/coap_option.c"
#include "stubs.h"
size_t wrap(const uint8_t *b, size_t n, coap_option_t *o) { coap_option_t option; size_t r = coap_opt_parse(b, n, &option); *o = option; return r; }
void harness(void) {
  size_t n; __CPROVER_assume(n >= 1 && n <= 70000);
  uint8_t *buf = malloc(n); __CPROVER_assume(buf);
  GB = buf; GN = n;
  const uint8_t *b; size_t m; coap_option_t *o;
  wrap(b, m, o);
}
