/* Probe for C15: abstract "remembered set" view of the OSCORE replay window.
 * On the pinned tree (2.6 s): undefined-shift.1 (line 387), postcondition L1 and L3 FAIL,
 * L2 and the rep invariant pass.  Run with:
 *   cbmc --unwind 9 --unwinding-assertions --bounds-check --pointer-check \
 *        --undefined-shift-check --signed-overflow-check
 * (probe only: the real unit must use --unwindset for coap_decode_var_bytes8, never --unwind) */
#include "coap3/coap_libcoap_build.h"
#define CAP(c) ((c)->osc_ctx->replay_window_size < 63 ? (uint64_t)(c)->osc_ctx->replay_window_size : (uint64_t)63)
#define SEEN(last, win, s) ((s) <= (last) && (last) - (s) <= 63 && (((win) >> ((last) - (s))) & 1))
/* "remembered": a later validate of s must be refused */
#define REMEMBERED(last, win, cap, s) ((s) <= (last) && (SEEN(last, win, s) || (last) - (s) > (cap)))
uint64_t GS; /* ghost: an arbitrary sequence number */
uint8_t oscore_validate_sender_seq_contract(oscore_recipient_ctx_t *ctx, cose_encrypt0_t *cose)
__CPROVER_requires(__CPROVER_is_fresh(ctx, sizeof(*ctx)) && __CPROVER_is_fresh(ctx->osc_ctx, sizeof(*ctx->osc_ctx)))
__CPROVER_requires(__CPROVER_is_fresh(cose, sizeof(*cose)) && cose->partial_iv.length <= 8 && __CPROVER_is_fresh(cose->partial_iv.s, 8))
__CPROVER_requires(ctx->initial_state == 0 && (ctx->sliding_window & 1) && ctx->last_seq < OSCORE_SEQ_MAX)
__CPROVER_assigns(*ctx)
/* L1: accepted => now remembered */
__CPROVER_ensures(__CPROVER_return_value == 1 ==> REMEMBERED(ctx->last_seq, ctx->sliding_window, CAP(ctx), coap_decode_var_bytes8(cose->partial_iv.s, cose->partial_iv.length)))
/* L2: remembered stays remembered */
__CPROVER_ensures(REMEMBERED(__CPROVER_old(ctx->last_seq), __CPROVER_old(ctx->sliding_window), CAP(ctx), GS) ==> REMEMBERED(ctx->last_seq, ctx->sliding_window, CAP(ctx), GS))
/* L3: remembered => refused */
__CPROVER_ensures(REMEMBERED(__CPROVER_old(ctx->last_seq), __CPROVER_old(ctx->sliding_window), CAP(ctx), coap_decode_var_bytes8(cose->partial_iv.s, cose->partial_iv.length)) ==> __CPROVER_return_value == 0)
/* rep invariant kept */
__CPROVER_ensures((ctx->sliding_window & 1) && ctx->initial_state == 0)
;
#include "/repo/src/oscore/oscore.c"
#include "/repo/src/coap_encode.c"
#include "stubs.h"
void harness(void) { oscore_recipient_ctx_t *c; cose_encrypt0_t *e; oscore_validate_sender_seq(c, e); }
