/* trusted stubs: allocator may fail; logging has no effect */
#include <stdlib.h>
_Bool nondet_bool(void);
void *coap_malloc_type(coap_memory_tag_t type, size_t size) { (void)type; if (nondet_bool()) return NULL; return malloc(size); }
void *coap_realloc_type(coap_memory_tag_t type, void *p, size_t size) { (void)type; if (nondet_bool()) return NULL; return realloc(p, size); }
void coap_free_type(coap_memory_tag_t type, void *p) { (void)type; free(p); }
coap_log_t coap_get_log_level(void) { coap_log_t l; __CPROVER_assume(l >= 0 && l <= 8); return l; }
void coap_log_impl(coap_log_t level, const char *format, ...) { (void)level; (void)format; }
