#include "coap3/coap_libcoap_build.h"
#define MIN(a,b) ((a) < (b) ? (a) : (b))
size_t G_o0, G_B; /* ghost copies of initial offset and buffer size */
coap_print_status_t coap_print_link_contract(const coap_resource_t *resource, unsigned char *buf, size_t *len, size_t *offset)
__CPROVER_requires(__CPROVER_is_fresh(resource, sizeof(*resource)) && __CPROVER_is_fresh(resource->uri_path, sizeof(coap_str_const_t)))
__CPROVER_requires(resource->uri_path->length <= 16 && __CPROVER_is_fresh(resource->uri_path->s, 16))
__CPROVER_requires(resource->link_attr == NULL)
__CPROVER_requires(__CPROVER_is_fresh(len, sizeof(*len)) && __CPROVER_is_fresh(offset, sizeof(*offset)))
__CPROVER_requires(*len == G_B && *len >= 1 && *len <= 32 && __CPROVER_is_fresh(buf, 32) && *offset == G_o0 && *offset <= 100000)
__CPROVER_assigns(*len, *offset, __CPROVER_object_whole(buf))
/* total length is exact */
__CPROVER_ensures(*len == 3 + resource->uri_path->length + (resource->observable ? 4 : 0) + ((resource->flags & COAP_RESOURCE_FLAGS_OSCORE_ONLY) ? 4 : 0))
/* bytes written = window size; offset consumed */
__CPROVER_ensures(COAP_PRINT_OUTPUT_LENGTH(__CPROVER_return_value) == MIN(G_B, *len - MIN(G_o0, *len)))
__CPROVER_ensures(*offset == G_o0 - MIN(G_o0, *len))
/* truncation flag exactly when listing remains beyond the window */
__CPROVER_ensures(((__CPROVER_return_value & COAP_PRINT_STATUS_TRUNC) != 0) == (MIN(G_o0, *len) + MIN(G_B, *len - MIN(G_o0, *len)) < *len))
;
#include "/repo/src/coap_resource.c"
#include "stubs.h"
void harness(void) { const coap_resource_t *r; unsigned char *b; size_t *l, *o; coap_print_link(r, b, l, o); }
