#include "coap3/coap_libcoap_build.h"
int coap_pdu_parse_opt_contract(coap_pdu_t *pdu)
__CPROVER_requires(__CPROVER_r_ok(pdu, sizeof(*pdu)))
__CPROVER_requires(pdu->used_size <= 70000 && pdu->e_token_length <= 70000)
__CPROVER_assigns(*pdu)
__CPROVER_ensures(__CPROVER_return_value == 0 || __CPROVER_return_value == 1)
__CPROVER_ensures(__CPROVER_return_value == 1 && pdu->data != NULL ==> (__CPROVER_same_object(pdu->data, pdu->token) && pdu->data > pdu->token && pdu->data[-1] == 0xFF && (size_t)(pdu->data - pdu->token) < pdu->used_size))
;
#include "/repo/src/coap_pdu.c"
#include "/repo/src/coap_option.c"
#include "stubs.h"
void harness(void) {
  coap_pdu_t *pdu = malloc(sizeof(*pdu)); __CPROVER_assume(pdu);
  size_t u; __CPROVER_assume(u <= 70000);
  uint8_t *buf = malloc(6 + (u ? u : 1)); __CPROVER_assume(buf);
  pdu->token = buf + 6; pdu->max_hdr_size = 6; pdu->alloc_size = u; pdu->used_size = u;
  int r = coap_pdu_parse_opt(pdu);
  __CPROVER_assert(0, "vacuity.end_reachable");
  __CPROVER_assert(r == 0, "vacuity.accept_reachable");
}
