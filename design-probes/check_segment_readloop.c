#include "coap3/coap_libcoap_build.h"
static int check_segment_contract(const uint8_t *s, size_t length, size_t *segment_size)
__CPROVER_requires(length <= 100000 && __CPROVER_is_fresh(s, length ? length : 1) && __CPROVER_is_fresh(segment_size, sizeof(*segment_size)))
__CPROVER_assigns(*segment_size)
__CPROVER_ensures(__CPROVER_return_value == 0 || __CPROVER_return_value == -1)
__CPROVER_ensures(__CPROVER_return_value == 0 ==> *segment_size <= length)
;
#include "/repo/src/coap_uri.c"
#include "stubs.h"

/* trusted stub: glibc ctype table (only the bits used: _ISxdigit, _ISdigit) */
static unsigned short ctype_tab[384];
static const unsigned short *ctype_ptr = ctype_tab + 128;
const unsigned short **__ctype_b_loc(void) { return &ctype_ptr; }
void harness(void) { for (int i = 0; i < 384; i++) { unsigned short v; ctype_tab[i] = v; } const uint8_t *s; size_t n; size_t *o; check_segment(s, n, o); }
