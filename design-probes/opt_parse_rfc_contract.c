#include "coap3/coap_libcoap_build.h"
#define DN(o) ((o)[0] >> 4)
#define LN(o) ((o)[0] & 15)
#define DX(o) (DN(o) == 13 ? 1u : DN(o) == 14 ? 2u : 0u)
#define LX(o) (LN(o) == 13 ? 1u : LN(o) == 14 ? 2u : 0u)
#define HDR(o) (1u + DX(o) + LX(o))
#define DELTA(o) (DN(o) < 13 ? (uint32_t)DN(o) : DN(o) == 13 ? (uint32_t)(o)[1] + 13u : (((uint32_t)(o)[1] << 8) | (o)[2]) + 269u)
#define LENV(o) (LN(o) < 13 ? (uint32_t)LN(o) : LN(o) == 13 ? (uint32_t)(o)[1 + DX(o)] + 13u : (((uint32_t)(o)[1 + DX(o)] << 8) | (o)[2 + DX(o)]) + 269u)
#define WELLFORMED(o, n) ((n) >= 1 && DN(o) != 15 && LN(o) != 15 && (n) >= HDR(o) && DELTA(o) <= 65535u && (n) >= HDR(o) + LENV(o))

size_t coap_opt_parse_contract(const coap_opt_t *opt, size_t length, coap_option_t *result)
__CPROVER_requires(length <= 70000 && __CPROVER_r_ok(opt, length ? length : 1))
__CPROVER_requires(__CPROVER_is_fresh(result, sizeof(*result)))
__CPROVER_assigns(*result)
__CPROVER_ensures((__CPROVER_return_value != 0) == WELLFORMED(opt, length))
__CPROVER_ensures(__CPROVER_return_value != 0 ==> (__CPROVER_return_value == HDR(opt) + LENV(opt) && result->delta == DELTA(opt) && result->length == LENV(opt) && result->value == opt + HDR(opt)))
;
#include "/repo/src/coap_option.c"
#include "stubs.h"
struct inbuf { uint8_t b[16]; };
struct inbuf nondet_inbuf(void);
void harness(void) {
  struct inbuf in = nondet_inbuf();
  size_t length; __CPROVER_assume(length <= sizeof(in.b));
  uint8_t *buf = malloc(length ? length : 1); __CPROVER_assume(buf);
  for (size_t i = 0; i < 16; i++) if (i < length) buf[i] = in.b[i];
  coap_option_t *result;
  coap_opt_parse(buf, length, result);
}
