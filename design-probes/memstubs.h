void *memmove(void *d, const void *s, size_t n) { __CPROVER_assert(__CPROVER_r_ok(s,n),"memmove src readable"); __CPROVER_assert(__CPROVER_w_ok(d,n),"memmove dst writable"); if (n) __CPROVER_havoc_slice(d,n); return d; }
void *memcpy(void *d, const void *s, size_t n) { __CPROVER_assert(__CPROVER_r_ok(s,n),"memcpy src readable"); __CPROVER_assert(__CPROVER_w_ok(d,n),"memcpy dst writable"); if (n) __CPROVER_havoc_slice(d,n); return d; }
int nondet_int(void);
int memcmp(const void *a, const void *b, size_t n) { __CPROVER_assert(__CPROVER_r_ok(a,n),"memcmp a readable"); __CPROVER_assert(__CPROVER_r_ok(b,n),"memcmp b readable"); return nondet_int(); }
