/* Native replay runtime: supplies the inputs named in a replay input file to a unit harness that
 * was compiled with -DVERIF_NATIVE (gcc, -fsanitize=address,undefined).
 * File format, one record per line:
 *   S <name> <decimal value>          scalar input (IN_SCALAR / stub scalars; repeated names = sequence)
 *   B <name> <hex bytes>              byte-array input (IN_BYTES / IN_BUF)
 * Unknown names default to 0 / zero bytes (the verifier left them unconstrained and unused).
 * Exit status: 0 no failure reproduced, 1 spec predicate violated on the real code,
 *              3 inputs outside the harness precondition; sanitizer reports abort (non-zero).
 */
#include <stdio.h>
#include <stdlib.h>
#include <string.h>
#include <stdint.h>

int vin_fail_count = 0;
#define MAXREC 4096
static struct rec { char kind; char name[96]; char *val; int used; } recs[MAXREC];
static int nrec = 0;

void vin_load(const char *path) {
  FILE *f = fopen(path, "r");
  if (!f) { perror(path); exit(2); }
  static char line[1 << 20];
  while (fgets(line, sizeof line, f) && nrec < MAXREC) {
    char kind; char name[96]; int off = 0;
    if (sscanf(line, " %c %95s %n", &kind, name, &off) < 2) continue;
    recs[nrec].kind = kind;
    strcpy(recs[nrec].name, name);
    char *v = line + off; size_t l = strlen(v);
    while (l && (v[l - 1] == '\n' || v[l - 1] == ' ')) v[--l] = 0;
    recs[nrec].val = strdup(v);
    recs[nrec].used = 0;
    nrec++;
  }
  fclose(f);
}

/* scalars: the k-th request for a name gets the k-th record with that name; the last one repeats */
unsigned long long vin_scalar(const char *name) {
  struct rec *last = NULL;
  for (int i = 0; i < nrec; i++)
    if (recs[i].kind == 'S' && !strcmp(recs[i].name, name)) {
      last = &recs[i];
      if (!recs[i].used) { recs[i].used = 1; break; }
    }
  if (!last) return 0;
  if (last->val[0] == '-') return (unsigned long long)strtoll(last->val, NULL, 10);
  return strtoull(last->val, NULL, 10);
}

int vin_next_choice(const char *site) { return (int)(vin_scalar(site) & 1); }

void vin_bytes(const char *name, uint8_t *dst, size_t cap) {
  memset(dst, 0, cap);
  for (int i = 0; i < nrec; i++)
    if (recs[i].kind == 'B' && !strcmp(recs[i].name, name)) {
      const char *h = recs[i].val; size_t k = 0;
      while (h[0] && h[1] && k < cap) {
        unsigned v; if (sscanf(h, "%2x", &v) != 1) break;
        dst[k++] = (uint8_t)v; h += 2;
      }
      return;
    }
}

void harness(void);
int main(int argc, char **argv) {
  if (argc < 2) { fprintf(stderr, "usage: %s <inputs>\n", argv[0]); return 2; }
  vin_load(argv[1]);
  harness();
  if (vin_fail_count) { printf("REPLAY-RESULT: reproduced (%d spec predicate(s) violated by the real code)\n", vin_fail_count); return 1; }
  printf("REPLAY-RESULT: not reproduced\n");
  return 0;
}
